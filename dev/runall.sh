#!/bin/sh
# dev helper: run every registered check in sequence, print one line each
tier=${1:-quick}; shift
cd /verif
for id in ${@:-C01 C02 C03 C04 C05 C07 C08 C09 C10 C11 C12 C13 C14 C16 C18 C19 C20}; do
  s=$(date +%s)
  ./check $id --tier $tier > /var/tmp/iref-verif/run-$id.out 2>&1
  rc=$?
  e=$(date +%s)
  echo "$id rc=$rc wall=$((e-s))s $(grep -c 'success' /var/tmp/iref-verif/run-$id.out) ok / $(grep -c 'failed\|timeout\|oom\|error' /var/tmp/iref-verif/run-$id.out) bad"
done
