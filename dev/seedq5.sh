#!/bin/sh
# re-confirm, in two parallel batches (own scratch per seed), the seeds whose catching harness changed
T=/verif/dev/test_seed_par.sh
$T C11 C11 C11 quick --only c11_set_userinfo_some_n3 &
$T C04 C04 C04 quick --only c11_set_userinfo_some_n3 &
$T C10 C10 C10 quick --only c10_embedded_clear_n5 &
$T C07 C07 C07 quick --only c09_normalized_segments_dots_n7 &
wait
$T C18 C18 C18 quick --only c18_data_url_borrowed_n9 &
$T C14 C14 C14 quick --only c14_text_eq_uri_components_n4 &
$T C05 C05 C05 quick --only c05_urirefbuf_set_scheme_n4 &
wait
