#!/bin/sh
# run the registered check(s) for a property against a seeded worktree (never /repo itself)
# usage: test_seed.sh <seed-name> <worktree-id> <prop> [tier] [extra check args]
name=$1; id=$2; prop=$3; tier=${4:-quick}; shift 4 2>/dev/null
cd /verif
s=$(date +%s)
VERIF_EVIDENCE_DIR=/var/tmp/iref-seed-evidence VERIF_REPLAY_DIR=/var/tmp/iref-seed-replays VERIF_REPO=/tmp/seed2/$id VERIF_SCRATCH=/var/tmp/iref-seed2-$id ./check $prop --tier $tier "$@" > /var/tmp/iref-seed-$name-$prop.out 2>&1
rc=$?
e=$(date +%s)
{ echo "seed=$name prop=$prop tier=$tier exit=$rc wall=$((e-s))s"; grep "VIOLATION\|^\[verif\]     \|INCONCLUSIVE\|KNOWN" /var/tmp/iref-seed-$name-$prop.out; } | tee /verif/seeded/$name/detected-$prop-$tier.txt
