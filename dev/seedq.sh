#!/bin/sh
# queue: run after seedrun1 finishes
while pgrep -f "test_seed.sh" > /dev/null; do sleep 20; done
T=/verif/dev/test_seed.sh
$T C05 C05 C05 quick --only c05_urirefbuf_set_scheme_n6
$T C10 C10 C10 quick --only c10_embedded_clear_n7
$T C11 C11 C11 quick --only c11_set_userinfo_n8
$T C01 C01 C01 quick
$T C13 C13 C13 quick
$T C14 C14 C14 quick
$T C08 C08 C07 quick --only c07_uri_segment_pair_n4
$T C09 C09 C09 quick --only c09_normalized_segments_n5,c09_normalized_segments_dots_n7
$T C07 C07 C09 quick --only c09_normalized_segments_dots_n7
$T C07 C07 C07 quick --only c07_path_dots_vs_rep5_n7
$T C16 C16 C16 quick
$T C18 C18 C18 quick
$T C19 C19 C19 quick --only c19_octets_uri_host_n8
$T C20 C20 C02 quick --only c02_uri_n10,c02_uriref_n12
$T C20 C20 C20 quick
/verif/dev/test_seed.sh C04 C04 C04 quick --only c11_set_userinfo_n7
