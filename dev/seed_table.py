#!/usr/bin/env python3
"""Print the DESIGN.md table of seeded changes from /verif/seeded/*/."""
import json, os, re, glob
rows = []
for d in sorted(glob.glob('/verif/seeded/*/')):
    name = os.path.basename(d.rstrip('/'))
    m = json.load(open(d + 'meta.json'))
    det = []
    for f in sorted(glob.glob(d + 'detected-*.txt')):
        t = open(f).read()
        h = re.search(r'seed=\S+ prop=(\S+) tier=(\S+) exit=(\d+)', t)
        if not h:
            continue
        hs = sorted(set(re.findall(r'\]\s+(c\d+::\w+|L\([^)]*\)[^:(]*)', t)))
        verdict = {'1': 'caught', '0': 'MISSED', '2': 'inconclusive'}[h.group(3)]
        det.append('%s %s: %s%s' % (h.group(1), h.group(2), verdict, (' by ' + ', '.join(x.strip() for x in hs[:3])) if hs and verdict == 'caught' else ''))
    rows.append('| %s | %s | %s | %s |' % (name, m['property'], m['needs'].replace('|', '/'), '; '.join(det) or 'not run yet'))
table = '| seed | breaks | needs, in order to manifest | checks run against it |\n|---|---|---|---|\n' + '\n'.join(rows)
import sys
if '--inject' in sys.argv:
    d = open('/verif/DESIGN.md').read()
    a = d.index('<!-- seeds:begin -->') + len('<!-- seeds:begin -->')
    b = d.index('<!-- seeds:end -->')
    open('/verif/DESIGN.md', 'w').write(d[:a] + '\n' + table + '\n' + d[b:])
else:
    print(table)
