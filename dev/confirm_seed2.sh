#!/bin/sh
# round 2: confirm a seeded change in /tmp/seed2/<id> (demo = crates/core/examples/seed_demo.rs):
# compiles, existing suite passes with it, demo fails with the change and passes without;
# then store it under /verif/seeded/<name>
id=$1; name=${2:-R2-$1}; wt=/tmp/seed2/$id
cd $wt || exit 1
export CARGO_TARGET_DIR=$wt/target CARGO_NET_OFFLINE=true
mkdir -p /verif/seeded/$name
git diff -- crates/core/src crates/macros/src src > /verif/seeded/$name/patch.diff
cp crates/core/examples/seed_demo.rs /verif/seeded/$name/seed_demo.rs
[ -f SEED_REPORT.md ] && cp SEED_REPORT.md /verif/seeded/$name/SEED_REPORT.md
touch crates/core/src/lib.rs; suite=$(cargo test --workspace --offline 2>&1 | grep "test result" | awk '{p+=$4; f+=$6} END {print p" passed "f" failed"}')
touch crates/core/src/lib.rs; cargo run -q -p iref-core --offline --features data,serde --example seed_demo >/dev/null 2>&1; with=$?
git apply -R /verif/seeded/$name/patch.diff
touch crates/core/src/lib.rs; cargo run -q -p iref-core --offline --features data,serde --example seed_demo >/dev/null 2>&1; without=$?
git apply /verif/seeded/$name/patch.diff
touch crates/core/src/lib.rs
echo "$name: suite-with-change: $suite | demo exit with change: $with | demo exit without: $without" | tee /verif/seeded/$name/confirmed.txt
