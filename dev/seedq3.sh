#!/bin/sh
T=/verif/dev/test_seed.sh
$T C08 C08 C08 quick --only c08_uri_segment_hash_n3
$T C10 C10 C10 quick --only c10_embedded_clear_n5
$T C05 C05 C05 quick --only c05_urirefbuf_set_scheme_n4
$T C09 C09 C09 quick
$T C12 C12 C12 quick --only c12_uri_interleave_n7
$T C03 C03 C03 quick --only c03_uri_authority_n12
$T C13 C13 C13 quick --only c13_owned_iri_family_n6
$T C14 C14 C14 quick --only c14_text_eq_uri_components_n4
