#!/bin/sh
T=/verif/dev/test_seed.sh
$T C11 C11 C11 quick --only c11_set_userinfo_some_n3
$T C04 C04 C04 quick --only c11_set_userinfo_some_n3
$T C08 C08 C08 quick --only c08_uri_segment_hash_n3
$T C18 C18 C18 quick --only c18_data_url_borrowed_n9
$T C19 C19 C19 quick --only c19_octets_uri_host_n8
$T C20 C20 C20 quick --only c02_uriref_n12
$T C20 C20 C02 quick --only c02_uri_n10
$T C16 C16 C16 quick
$T C07 C07 C07 quick
$T C10 C10 C10 quick --only c10_embedded_clear_n5
$T C05 C05 C05 quick --only c05_urirefbuf_set_scheme_n4
$T C09 C09 C09 quick
$T C16 C16 C16 thorough --only c16_path_suffix_rep4_n5
