#!/bin/sh
# dev helper: run one harness under Kani in an isolated probe area (no limits), print a summary
h=$1; to=${2:-1800}
mkdir -p /var/tmp/iref-probe
rsync -a --checksum --exclude target --exclude Cargo.lock /var/tmp/iref-verif-dev/harness/ /var/tmp/iref-probe/harness/
ln -sfn /var/tmp/iref-verif-dev/src /var/tmp/iref-probe/src
cp -n /var/tmp/iref-verif-dev/harness/Cargo.lock /var/tmp/iref-probe/harness/Cargo.lock 2>/dev/null
cd /var/tmp/iref-probe/harness
tag=$(echo $h | tr ':' '_')
s=$(date +%s)
RUSTFLAGS="--cfg iref_verif" CARGO_NET_OFFLINE=true /usr/bin/time -v -o /var/tmp/iref-probe/$tag.time timeout $to cargo kani -Z stubbing -Z concrete-playback --concrete-playback=print $PROBE_ARGS --harness $h --exact --target-dir /var/tmp/iref-probe/kt_$tag > /var/tmp/iref-probe/$tag.log 2>&1
e=$(date +%s)
echo "$h wall=$((e-s))s rss=$(grep 'Maximum resident' /var/tmp/iref-probe/$tag.time | awk '{printf "%.1fGB", $NF/1048576}') $(grep -o 'VERIFICATION:- [A-Z]*\|out of memory' /var/tmp/iref-probe/$tag.log | head -1) $(grep 'Verification Time' /var/tmp/iref-probe/$tag.log) $(grep -o '[0-9]* variables, [0-9]* clauses' /var/tmp/iref-probe/$tag.log | tail -1)"
grep "Failed Checks" -A2 /var/tmp/iref-probe/$tag.log | head -6
