#!/bin/sh
# confirm a seeded change in its scratch worktree: compiles, existing suite passes,
# demo fails with the change and passes without; then store it under /verif/seeded/<name>
id=$1; name=${2:-$1}; wt=/tmp/seed/$id
cd $wt || exit 1
mkdir -p /verif/seeded/$name
git diff -- crates/core/src crates/macros/src src > /verif/seeded/$name/patch.diff
cp crates/core/tests/seed_demo.rs /verif/seeded/$name/seed_demo.rs
[ -f SEED_REPORT.md ] && cp SEED_REPORT.md /verif/seeded/$name/SEED_REPORT.md
mv crates/core/tests/seed_demo.rs /tmp/seed/$id.demo.rs
touch crates/core/src/lib.rs; suite=$(cargo test --workspace --offline 2>&1 | grep "test result" | awk '{p+=$4; f+=$6} END {print p" passed "f" failed"}')
mv /tmp/seed/$id.demo.rs crates/core/tests/seed_demo.rs
touch crates/core/src/lib.rs; with=$(cargo test -p iref-core --offline --features data,serde --test seed_demo 2>&1 | grep "test result" | head -1)
git stash -q
touch crates/core/src/lib.rs; without=$(cargo test -p iref-core --offline --features data,serde --test seed_demo 2>&1 | grep "test result" | head -1)
git stash pop -q
touch crates/core/src/lib.rs
echo "$name: suite-with-change: $suite | demo with change: $with | demo without: $without"
