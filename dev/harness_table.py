#!/usr/bin/env python3
import sys; sys.path.insert(0,'/verif/runner')
import core
hs=core.scan_harnesses()
ids=sorted(set(p for h in hs for p in h['props']))
out=[]
for pid in ids:
    q=[h for h in hs if pid in h['props'] and h.get('prop_tier',{}).get(pid,h['tier'])=='quick']
    t=[h for h in hs if pid in h['props'] and h.get('prop_tier',{}).get(pid,h['tier'])!='quick']
    out.append('**%s** quick (%d):' % (pid,len(q)))
    for h in q: out.append('- `%s` — %s' % (h['name'].split('::')[1], h.get('bound','')))
    out.append('(thorough tier adds %d stretch harnesses; names and bounds in harness/src/*.rs `// @h` lines)' % len(t))
    out.append('')
text='\n'.join(out)
if '--inject' in sys.argv:
    d=open('/verif/DESIGN.md').read()
    a=d.index('**C01** quick', d.index('### 10.6'))
    b=d.index('### 10.6b')
    open('/verif/DESIGN.md','w').write(d[:a]+text+'\n'+d[b:])
else:
    print(text)
