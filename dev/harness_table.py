#!/usr/bin/env python3
import sys; sys.path.insert(0,'/verif/runner')
import core
hs=core.scan_harnesses()
ids=sorted(set(p for h in hs for p in h['props']))
for pid in ids:
    q=[h for h in hs if pid in h['props'] and h.get('prop_tier',{}).get(pid,h['tier'])=='quick']
    t=[h for h in hs if pid in h['props'] and h.get('prop_tier',{}).get(pid,h['tier'])!='quick']
    print('**%s** quick (%d):' % (pid,len(q)))
    for h in q: print('- `%s` — %s' % (h['name'].split('::')[1], h.get('bound','')))
    print('thorough adds (%d, stretch): %s' % (len(t), ', '.join('`%s`'%h['name'].split('::')[1] for h in t) or '-'))
    print()
