#!/bin/sh
# dev helper: calibrate harnesses one after the other (probe area), append to calib.out
/verif/dev/nb.sh > /dev/null 2>&1
for h in "$@"; do /verif/dev/probe.sh $h 1500 >> /var/tmp/iref-probe/calib.out 2>&1; done
