#!/bin/sh
# dev helper: sync harness crate into the scratch area and build the native tool
cd /verif && VERIF_SCRATCH=/var/tmp/iref-verif-dev python3-vt - <<'PY'
import sys; sys.path.insert(0,'/verif/runner')
import core
try:
    ctx=core.prepare(0)
    print('ok', ctx.table_validation)
except core.Inconclusive as e:
    print(str(e)[-6000:])
PY
