#!/bin/sh
# two probes at a time
run() { /verif/dev/probe.sh $1 2400 >> /var/tmp/iref-probe/calib2.out 2>&1; }
/verif/dev/nb.sh > /dev/null 2>&1
( for h in c11::c11_set_host_n4 c09::c09_normalize_in_place_n5 c09::c09_normalize_embedded_n5 c20::c20_uriref_noalloc_n9 c10::c10_embedded_push_n5 c07::c07_path_vs_rep6_n4 c08::c08_uriref_vs_rep6_n5 c16::c16_path_suffix_rep2_n4 c18::c18_data_url_n14; do run $h; done ) &
( for h in c09::c09_normalized_copy_n5 c09::c09_normalized_segments_n5 c09::c09_normalized_segments_dots_n7 c20::c20_iriref_noalloc_n8 c19::c19_chars_uri_segment_n6 c10::c10_embedded_symbolic_push_n5 c07::c07_path_dots_vs_rep5_n7 c08::c08_uri_views_n6 c10::c10_embedded_pop_n5; do run $h; done ) &
wait
