"""Per-property configuration (what is outside the bounds, stubs in force,
assumptions).  Harness membership comes from the `// @h` annotations in
/verif/harness/src/*.rs; Engine D task lists from tasks_d.py."""

TABLE_STUB = ('kani::assume(table_walk(bytes)) as the validity precondition for the big-DFA types (Uri, UriRef, Iri, IriRef, Authority, Host): '
              'the table is regenerated on every run from the macro expansion of the current tree and compared natively with the real constructors')

HOOK_COMMITS = ['7dfbf17']

BMC_NOTE = ('Bounded: holds for every input within the byte bounds stated in the evidence, not beyond. Trusted: Kani MIR->goto translation, CBMC/CaDiCaL, '
            'the harness oracle, and the table twins used as validity preconditions (regenerated per run, validated natively).')

PENDING = 'check not built yet in this session (see DESIGN.md section 4 for the plan); will be claimed when its harnesses are committed'
NOT_APPLICABLE = {
    'C06': 'resolve() as a whole exhausts 26-38 GB in CBMC at the smallest meaningful bounds (base<=4, ref<=3) and Kani cannot stub the private trait methods it chains; its kernels are decided under C05/C09/C10/C12 (DESIGN.md section 4, C06)',
    'C15': 'relative_to alone times out at 50 min/13 GB with 4 symbolic bytes and the round trip additionally needs resolve (C06): no bound within reach (DESIGN.md section 4, C15)',
    'C17': 'subject is a proc-macro (proc_macro::TokenStream, syn, rustc compiling the quote! output): not compilable by Kani nor translatable to SMT; the acceptance test inside the macro is the run-time constructor decided under C01 (DESIGN.md section 5)',
}
for _i in range(1, 21):
    NOT_APPLICABLE.setdefault('C%02d' % _i, PENDING)

PROPS = {
    'C02': dict(
        technique='Kani/CBMC bounded model checking of the real accessors against an RFC 3986 App. B oracle, SAT-decided over all valid texts within the bound',
        level_text='For every valid text up to the stated byte bound (all bytes, all component shapes) CBMC proves each accessor and parts() field equal, as pointer and length, to the RFC 3986 Appendix B decomposition, and the ranges tile the text; bounded, not a proof for all lengths.',
        level_note=BMC_NOTE,
        outside='texts longer than the byte bound of each harness (12-16 bytes URI family, 10-14 IRI family)',
        stubs=[TABLE_STUB],
        assumptions=['subject is a valid value of its type (table twin of the generated automaton as kani::assume)',
                     'oracle: RFC 3986 Appendix B regular expression, harness/src/oracle.rs::split_ref'],
    ),
    'C03': dict(
        technique='Kani/CBMC bounded model checking of the real authority scanners against an RFC 3986 section 3.2 oracle, SAT-decided over all valid authorities within the bound',
        level_text='For every valid authority up to the stated byte bound CBMC proves user_info()/host()/port() and parts() equal, as pointer and length, to the section 3.2 split (user info before the @, bracketed IP literal or text up to the next colon, digits after it), presence distinguished from emptiness, each part valid for its own type; bounded.',
        level_note=BMC_NOTE,
        outside='authorities longer than the byte bound (12-16 bytes; IPv6 text longer than that is only covered by the grammar side, C01)',
        stubs=[TABLE_STUB],
        assumptions=['subject is a valid authority (table twin as kani::assume)', 'oracle: harness/src/oracle.rs::split_auth'],
    ),
    'C12': dict(
        technique='Kani/CBMC bounded model checking of the real segment iterators under a symbolic next/next_back schedule, and of the path queries, against a slash-split oracle',
        level_text='For every valid path up to the byte bound and every interleaving of front/back steps (one symbolic choice bit per step) CBMC proves each yielded item is exactly the next slash-separated piece from that end (pointer and length), that front and back never cross and the iterator stays exhausted; is_empty/is_absolute/segment_count/first/last/file_name/directory/parent/parent_or_empty agree with that sequence; bounded.',
        level_note=BMC_NOTE,
        outside='paths longer than the byte bound (8-12 bytes URI, 7 bytes IRI); normalized_segments().len() is decided by the C09 harnesses',
        stubs=['IRI paths: byte-level table twin of the char automaton as the validity test (URI paths use the real Path::new)'],
        assumptions=['oracle: harness/src/oracle.rs::split_path (pieces between slashes after the optional leading slash)',
                     'parent() of //x is the documented /./ and parent() of a single relative segment is None (as the repository tests state)'],
    ),
    'C01': dict(
        engine='D+K', engine_d='c01',
        technique='SMT (z3, cvc5 cross-check): inductive equivalence of the automata recovered from the compiler expansion with an RFC-ABNF reference automaton (all lengths) + bounded witness query; Kani/CBMC for the constructor glue',
        level_text='Language side: for each of the 20 validated types, in two build configurations (automaton cache used / removed), the solver certifies an inductive relation between the generated validate() automaton and a reference DFA compiled by /verif from its own copy of RFC 3986 App. A / RFC 3987 2.2, i.e. equality of the accepted languages for strings of every length, and re-decides it as a bounded query that yields a concrete distinguishing string (replayed against the real constructor) when it fails. Glue side: CBMC shows for every input within the byte bound that each construction route returns Ok exactly when validate accepts, keeps the text (same pointer/bytes) and returns the untouched input in the error; bounded.',
        level_note='Trusted: rustc expansion printer and the extraction regex (cross-checked natively: table twins vs real constructors on seeded strings every run), the ABNF reference compiler and RFC transcriptions in /verif/engine_d, z3 (cvc5 re-decides the inductive queries in the thorough tier). The inductive queries are unbounded in string length; the glue harnesses are bounded (6-8 bytes).',
        outside='glue beyond 8 bytes; serde formats other than handing the visitor a str/bytes/String/Vec; a stale incremental artefact in a user target/ directory',
        stubs=['glue harnesses of the six big-DFA types: validate stubbed by its table twin (same automaton, extracted per run) via #[kani::stub]'],
        assumptions=['reference grammar: /verif/engine_d/refspec/rfc3986.abnf, rfc3987.abnf; entry productions per engine_d/dfa.py::ENTRIES',
                     'IRI symbol domain: Unicode scalar values (surrogates excluded)'],
    ),
    'C13': dict(
        engine='D+K', engine_d='c13',
        technique='SMT (z3): inductive inclusion L(uri::X) in L(iri::X) and L(Uri)=L(UriRef) restricted to first-delimiter-is-colon over the extracted automata (all lengths); Kani/CBMC for every conversion function',
        level_text='The facts the unchecked URI->IRI and reference->absolute casts rely on are certified by the solver for strings of every length over the automata extracted from the current tree; every as_*/into_*/try_into_*/TryFrom/From conversion is model-checked for all inputs within the byte bound: success condition = oracle condition, success preserves the text, failure returns the original; bounded for the conversions.',
        level_note='Trusted as C01 for the automata; as the other Kani checks for the conversions. Cross-family identity of resolution is not decided (resolve is out of reach, C06).',
        outside='conversions on texts beyond the byte bound (8-12 bytes); cross-family agreement of resolution',
        stubs=[TABLE_STUB, 'Uri::validate / Iri::validate stubbed by their table twins where a conversion calls the checked constructor'],
        assumptions=['bytes 0-127 identified with the chars U+0000-U+007F'],
    ),
    'C05': dict(
        technique='Kani/CBMC bounded model checking of each real setter from an arbitrary valid buffer with an arbitrary valid argument, result compared bytewise with an RFC 5.3 recomposition oracle',
        level_text='For every valid buffer text and every valid new value (or removal) within the byte bounds CBMC proves that the buffer after set_scheme/set_authority/set_path/set_query/set_fragment is bytewise the RFC 3986 5.3 recomposition of the expected five components with exactly the three documented disambiguations (which implies read-back of the target and byte-identity of the other four) and that no call panics, overflows or indexes out of bounds; bounded.',
        level_note=BMC_NOTE + ' Heap: buffers have concrete capacity 40 and Vec::resize is replaced by an in-capacity version that asserts new_len <= capacity.',
        outside='buffers beyond 4 bytes (quick) / 5-8 bytes (thorough stretch) and arguments beyond 2-4 bytes; reallocation of the buffer',
        stubs=[TABLE_STUB, 'Vec::resize -> in-capacity version asserting new_len <= capacity (CAP 40)', 'mem::forget at the end of each harness (drop glue not modelled)'],
        assumptions=['an empty path after an authority may be rendered empty or as "/" (both valid and unambiguous; the setters that touch path/authority write "/")',
                     'oracle: harness/src/oracle.rs::{split_ref,recompose_with}'],
    ),
    'C04': dict(
        technique='Kani/CBMC bounded model checking, inductive: one safe mutator call from an arbitrary valid buffer with an arbitrary valid argument, post-state re-validated against the grammar table; handle invariant for sequences',
        level_text='Well-formedness is an inductive invariant: for every valid buffer text and every valid argument within the byte bounds, after one call of each setter, path edit (push/pop/clear/symbolic_push/symbolic_append/normalize) or authority edit the text is again accepted by the type grammar (table twin of the current automaton), is UTF-8, and no call panics, overflows or indexes out of bounds; the path/authority handle is shown to view exactly the fresh path()/authority() after each call, so sequences through one handle reduce to sequences of fresh handles (2-op same-handle harness as a direct cross-check in the thorough tier). In-place resolve is not covered (C06).',
        level_note=BMC_NOTE + ' Heap: buffers have concrete capacity 40; Vec::resize is replaced by an in-capacity version that asserts new_len <= capacity (a buffer that starts empty gets one allocation of that capacity).',
        outside="buffers beyond 3-5 bytes, arguments beyond 1-3 bytes, reallocation, spilled SmallVecs, in-place resolve(); in the quick tier: set_path, clear, set_userinfo(Some), set_host and the constructors only (the other mutators' harnesses are listed under C04 in the thorough tier and decide C05/C10/C11/C09 in both)",
        stubs=[TABLE_STUB, 'Vec::resize -> in-capacity version (asserts)', 'SmallVec::{push,extend_from_slice} -> pointer-loop versions asserting no spill; SmallVec::try_grow -> panic', 'mem::forget at harness end'],
        assumptions=['one inductive step per mutator; the invariant is: text accepted by the type grammar'],
    ),
    'C07': dict(
        technique='Kani/CBMC bounded model checking of the real PartialEq/Ord impls on pairs against a canonical-form oracle (decoded octets, dot-free segment lists)',
        level_text='For all pairs of component values within the byte bounds (fully symbolic pairs of segments, hosts, IRI segments <= 3-4 bytes each incl. every escaped octet; schemes and ports <= 4 bytes) and for (authority <= 6 bytes) x (listed representatives) CBMC proves a == b exactly when the canonical forms (percent-decoded octets; literal scheme/port) are equal, symmetric, and that no comparison panics. Path and whole-reference equality are the derived/hand-written composition of these with the normalized-segment sequence; the dot-segment stack discipline of that sequence (paths <= 7 bytes over the alphabet dot, slash, a against the RFC 5.2.4 oracle, shared with C09) is part of the quick tier of this property because path equality is only as right as it is; their direct harnesses (value <= 4-5 bytes x listed representatives) take 17-35 min and 16-30 GB each and are stretch harnesses of the thorough tier whose completion is reported in the evidence.',
        level_note=BMC_NOTE + ' Fully symbolic pairs of paths/URIs do not fit (two SmallVec normalisations); whole-URI equality is additionally justified structurally: it is the derived PartialEq of the parts() struct, whose fields are decided by C02 and by the component-level harnesses.',
        outside='component pairs beyond 3-6 bytes each; path / reference pairs in the quick tier (thorough stretch only, and only against listed representatives); triples',
        stubs=[TABLE_STUB, 'SmallVec::push -> pointer-loop version asserting no spill; SmallVec::try_grow -> panic'],
        assumptions=['oracle: percent-decoded octets for user info/host/segment/query/fragment, literal scheme and port, RFC 5.2.4/Errata 4547 dot-free segment list'],
    ),
    'C08': dict(
        technique='Kani/CBMC bounded model checking of the real Eq/Ord/Hash impls: ordering against the lexicographic order of canonical forms, hashing observed as the recorded write stream of a harness Hasher',
        level_text='On pairs of component values and (authority x representative) pairs: cmp equals the lexicographic order of the canonical forms (a total order consistent with equality), partial_cmp = Some(cmp), and equal values feed a recording hasher byte-identical data (compared write by write). The Borrow-contract harnesses (a URI/IRI vs the same text as a reference, owned vs borrowed: identical hash streams, equal, ordered Equal) and path-level Ord/Hash exist only in the thorough tier as stretch harnesses (20+ min, 25-40 GB each); the std collections themselves are not executed.',
        level_note=BMC_NOTE + ' HashMap/BTreeMap behaviour given the Borrow contract is trusted (hashbrown under CBMC is out of reach).',
        outside='as C07; the cross-view hash/eq harnesses in the quick tier (thorough stretch only); lookups in real collections',
        stubs=[TABLE_STUB, 'SmallVec::push/try_grow as C07'],
        assumptions=['hash observation: a Hasher that records write() calls (write_u8 etc. fall back to write)'],
    ),
    'C09': dict(
        technique='Kani/CBMC bounded model checking of normalized_segments / normalized / in-place normalize against an RFC 3986 5.2.4 + Errata 4547 segment-stack oracle',
        level_text="Quick tier: for every path within the bound (all paths <= 5 bytes; all paths <= 7 bytes over the alphabet {'.','/','a'}, i.e. every mixture of dot, parent, empty and ordinary segments) CBMC proves the normalized-segment iterator yields exactly the RFC 5.2.4 / Errata 4547 sequence, each item a sub-slice of the input, with an exact len(). Thorough tier adds normalized(), in-place normalize() and normalisation of an embedded path (exact expected text: same scheme/authority/query/fragment, the path the rendering of that sequence, shielded where needed, valid): these cost 16-22 min and 23-27 GB per harness whatever the bound, so they are stretch harnesses whose completion is reported in the evidence. Paths beyond the 16-segment / 512-byte inline buffers are NOT covered (spill asserted unreachable by the stubs).",
        level_note=BMC_NOTE + ' Heap: buffers have concrete capacity 40; Vec::resize is replaced by an in-capacity version that asserts new_len <= capacity (a buffer that starts empty gets one allocation of that capacity).',
        outside='paths beyond 5 bytes (7 over the dot alphabet); in the quick tier the rendering functions normalized()/normalize() (thorough tier only); more than 16 segments or 512 bytes (SmallVec spill paths are not verified)',
        stubs=[TABLE_STUB, 'SmallVec::{push,extend_from_slice} -> pointer-loop versions asserting no spill; try_grow -> panic', 'Vec::resize / <[u8]>::to_vec -> in-capacity versions'],
        assumptions=['a single leading "." in front of an empty or colon-bearing first segment is a shield; sequences are compared modulo it'],
    ),
    'C10': dict(
        technique='Kani/CBMC bounded model checking of each path edit from an arbitrary valid reference / path buffer against a list-semantics oracle',
        level_text='For every valid reference (or stand-alone path) and every valid segment argument within the byte bounds CBMC proves that push/pop/clear/symbolic_push/symbolic_append produce exactly the expected segment sequence (modulo the shield), keep the path absolute or relative, leave scheme, authority, query and fragment byte-identical, leave a valid text, never panic or overflow, and that the handle views exactly the new path afterwards; bounded, one edit per harness (sequences via the handle invariant, C04).',
        level_note=BMC_NOTE + ' Heap: buffers have concrete capacity 40; Vec::resize is replaced by an in-capacity version that asserts new_len <= capacity (a buffer that starts empty gets one allocation of that capacity).',
        outside='references beyond 4-5 bytes (quick) / 5-6 bytes (thorough stretch), segments beyond 2 bytes, appended paths beyond 4 bytes, reallocation',
        stubs=[TABLE_STUB, 'Vec::resize -> in-capacity version (asserts)'],
        assumptions=['oracle: harness/src/oracle.rs::{list_pop,symbolic_step,lists_equal_mod_shield}; a path that follows an authority is absolute even when empty'],
    ),
    'C11': dict(
        technique='Kani/CBMC bounded model checking of each authority edit from an arbitrary valid reference with an authority, result compared bytewise with a section 3.2 recomposition; handle invariant',
        level_text='For every valid reference with an authority and every valid new user info / host / port (set or removed; one harness per operation and per set/remove) within the byte bounds CBMC proves the buffer afterwards is bytewise the original with exactly that sub-component replaced (compared in place with the section 3.2 recomposition), is valid, and that the handle views exactly the new authority. In the quick tier (text <= 3 bytes, argument <= 1-2 bytes) the handle statement is arithmetic - same start pointer, length moved by exactly the length change of the text, which with the bytewise comparison pins the handle to the replaced piece; the thorough harnesses (text <= 4 bytes) compare pointer and length with a fresh authority() parse of the buffer, which alone costs as much as the edit (5-10 min, 8-20 GB of CBMC for one authority edit whatever is asserted afterwards). The thorough tier also has 4-6 byte texts and a two-op harness with symbolic op choice through ONE handle compared with the same ops through fresh handles (stretch).',
        level_note=BMC_NOTE + ' Heap: buffers have concrete capacity 40; Vec::resize is replaced by an in-capacity version that asserts new_len <= capacity (a buffer that starts empty gets one allocation of that capacity).',
        outside='references beyond 3 bytes (quick) / 4-6 bytes (thorough stretch), arguments beyond 1-2 bytes, set_port (set or removed) in the quick tier, sequences longer than two through one handle',
        stubs=[TABLE_STUB, 'Vec::resize -> in-capacity version (asserts)'],
        assumptions=['oracle: harness/src/oracle.rs::split_auth + recomposition'],
    ),
    'C14': dict(
        technique='Kani/CBMC bounded model checking of every generated route out (views, owned conversions, Display, serde Serialize through a recording Serializer) and of text comparison; routes in shared with the C01 glue harnesses',
        level_text='For every valid value within the byte bound CBMC proves the borrowed views are the very input bytes (pointer and length), owned conversions keep the buffer or an equal copy, Display and serde serialisation emit exactly the text, and comparing with a second arbitrary string is byte equality; every route in (new, TryFrom, FromStr, from_vec, serde visitors fed str/bytes/String/Vec) accepts exactly what validate accepts and preserves the text; bounded. Debug is not claimed (it quotes/escapes by design).',
        level_note=BMC_NOTE + ' Representative types per generated template (UriRef, IriRef, uri::Segment, uri::Authority, iri::Query); the templates are one proc-macro expansion applied to all 20 types.',
        outside='texts beyond 5-8 bytes; Debug; serde data formats other than handing the visitor a str/bytes/String/Vec<u8>',
        stubs=[TABLE_STUB, '<[u8]>::to_vec -> in-capacity version', 'big-DFA validate -> table twin / arbitrary verdict in the glue harnesses'],
        assumptions=['serde front end: harness/src/serde_drv.rs (visitor entry points visit_borrowed_str/str/string/borrowed_bytes/bytes/byte_buf)'],
    ),
    'C16': dict(
        technique='Kani/CBMC bounded model checking of base() against a last-slash oracle and of suffix() against a normalised-prefix oracle (value symbolic x listed prefixes)',
        level_text='base(): for every valid reference within the byte bound (both families) the result is exactly the sub-slice up to and including the last slash of the path (or up to the path start), valid for the same kind and without query/fragment (quick tier). suffix(): harnesses exist for (value <= 4-5 bytes) x (listed prefixes) - Some exactly when both are absolute or both relative and the prefix normalised segments lead the value ones (decoded comparison), the result the remaining segments; Uri::suffix needing equal scheme and authority and returning the value own query/fragment - but each costs more than 30 min of CBMC (two SmallVec normalisations), so they are thorough-tier stretch harnesses whose completion is reported in the evidence; during development none of them completed within its 60-90 min cap (symbolic execution of the PathBuf::push loop alone exceeded 45 min), so suffix() is in effect NOT decided by this machinery in either tier - the claim for this property is the base() half.',
        level_note=BMC_NOTE,
        outside='base() beyond 9-10 bytes; suffix() entirely in the quick tier and, unless a stretch harness completes (see coverage.not_completed), in the thorough tier too',
        stubs=[TABLE_STUB, 'Vec::resize -> in-capacity version', 'SmallVec::push/try_grow as C09'],
        assumptions=['prefix representatives: "", "/", "a", "/a", "a/b", "/a/..", "%61", ".."'],
    ),
    'C18': dict(
        technique='Kani/CBMC bounded model checking of the real DataUrl / DataUrlBuf constructors and accessors against a shape oracle (Uri::validate stubbed by its table twin)',
        level_text='For every byte string within the bound (quick: <= 9 bytes; thorough stretch: <= 13 bytes, first for texts starting with data: so that ;base64, fits, then for any text - 25+ min each) CBMC proves the borrowed constructor accepts exactly the valid URIs of the shape data:<media chars>[;base64],<data>, that its re-scanning accessors and parts() equal the oracle split (pointer and length) and reassemble the text, that the borrowed loop{} scanners terminate (unwinding assertions); and for every byte string <= 9 bytes that the owned constructor accepts the same set and its offset-based accessors and its borrowed view equal the same split. decoded_data() links the base64 engine and is a thorough-tier stretch harness (non-base64 branch only); the base64 decoding itself (base64 crate) is NOT decided in any tier.',
        level_note=BMC_NOTE,
        outside='texts beyond 9 bytes in the quick tier (so the ;base64 branch, 13 bytes, is thorough-only), 13-18 bytes in the thorough tier; decoded_data() in the quick tier; the base64 decoding performed by the base64 crate',
        stubs=['Uri::validate -> table twin of the same automaton (extracted per run)'],
        assumptions=['media type characters as listed in data.rs::is_media_type_char (the oracle repeats the list)'],
    ),
    'C19': dict(
        technique='Kani/CBMC bounded model checking of as_pct_str().bytes() against a percent-decoding oracle for the ten component types, and of chars()/len()/== str on well-formed octets',
        level_text='For every valid component of the ten component types within the byte bound CBMC proves the percent-encoded view is the component text itself and its octet iterator yields exactly the bytes with each %XX replaced by that octet (no UTF-8 involved; every octet pattern incl. FF, C0 80, ED A0 80). chars(), len() and comparison with plain text are decided only in the thorough tier (19+ min per harness) and only on inputs whose decoded octets are well-formed UTF-8: the ill-formed / overlong class is a KNOWN FINDING (pct-str 2.0 unwraps the UTF-8 decoding; utf8-decode accepts overlong forms) excluded from the solver query while the finding is open; decode() (String building) is not run.',
        level_note=BMC_NOTE + ' The panic and the overlong acceptance live in the pct-str / utf8-decode dependencies, reached through iref PctStr::new_unchecked view.',
        outside='components beyond 5-8 bytes; PctStr::decode / into_pct_string (heap building); values whose decoded octets are not well-formed UTF-8 for the chars-based operations (known finding)',
        stubs=['big-DFA Host: table twin as validity test'],
        assumptions=['known finding classes are compiled in as assume(!class) only while the finding is open and its witness still fails natively'],
    ),
    'C20': dict(
        technique='Kani/CBMC bounded model checking with the allocator entry points (alloc, alloc_zeroed, realloc) stubbed by a panic: no path through borrowed parsing and every read-only accessor reaches the allocator; pointer-range assertions for sub-slice/order/non-overlap',
        level_text='For every input within the byte bound CBMC proves that no execution path through the borrowed constructors (real generated validate for the small types, table twin for UriRef) and through parts/scheme/authority(+parts)/path/query/fragment/base/segments/first/last/file_name/directory/parent/parent_or_empty reaches the global allocator (a detector twin that allocates must FAIL), that the parsed value occupies exactly the caller input, and (C02/C03/C12/C16 harnesses) that everything returned is a sub-slice of the input in the RFC order or a documented constant; bounded. Inputs larger than the inline buffers are NOT covered: an accessor that used a SmallVec would not allocate at these sizes.',
        level_note=BMC_NOTE,
        outside='inputs beyond 6-12 bytes; in particular inputs larger than any inline buffer (a SmallVec-based accessor would be invisible here); normalized_segments() is not an allocation-free accessor and is not in the list',
        stubs=[TABLE_STUB, 'std::alloc::{alloc,alloc_zeroed,realloc} -> panic("heap allocation")', 'UriRef::validate -> table twin'],
        assumptions=['native replay uses a counting global allocator instead of the stubs'],
    ),
}
