"""Per-property configuration (what is outside the bounds, stubs in force,
assumptions).  Harness membership comes from the `// @h` annotations in
/verif/harness/src/*.rs; Engine D task lists from tasks_d.py."""

TABLE_STUB = ('kani::assume(table_walk(bytes)) as the validity precondition for the big-DFA types (Uri, UriRef, Iri, IriRef, Authority, Host): '
              'the table is regenerated on every run from the macro expansion of the current tree and compared natively with the real constructors')

HOOK_COMMITS = ['7dfbf17']

BMC_NOTE = ('Bounded: holds for every input within the byte bounds stated in the evidence, not beyond. Trusted: Kani MIR->goto translation, CBMC/CaDiCaL, '
            'the harness oracle, and the table twins used as validity preconditions (regenerated per run, validated natively).')

PENDING = 'check not built yet in this session (see DESIGN.md section 4 for the plan); will be claimed when its harnesses are committed'
NOT_APPLICABLE = {
    'C06': 'resolve() as a whole exhausts 26-38 GB in CBMC at the smallest meaningful bounds (base<=4, ref<=3) and Kani cannot stub the private trait methods it chains; its kernels are decided under C05/C09/C10/C12 (DESIGN.md section 4, C06)',
    'C15': 'relative_to alone times out at 50 min/13 GB with 4 symbolic bytes and the round trip additionally needs resolve (C06): no bound within reach (DESIGN.md section 4, C15)',
    'C17': 'subject is a proc-macro (proc_macro::TokenStream, syn, rustc compiling the quote! output): not compilable by Kani nor translatable to SMT; the acceptance test inside the macro is the run-time constructor decided under C01 (DESIGN.md section 5)',
}
for _i in range(1, 21):
    NOT_APPLICABLE.setdefault('C%02d' % _i, PENDING)

PROPS = {
    'C02': dict(
        technique='Kani/CBMC bounded model checking of the real accessors against an RFC 3986 App. B oracle, SAT-decided over all valid texts within the bound',
        level_text='For every valid text up to the stated byte bound (all bytes, all component shapes) CBMC proves each accessor and parts() field equal, as pointer and length, to the RFC 3986 Appendix B decomposition, and the ranges tile the text; bounded, not a proof for all lengths.',
        level_note=BMC_NOTE,
        outside='texts longer than the byte bound of each harness (12-16 bytes URI family, 10-14 IRI family)',
        stubs=[TABLE_STUB],
        assumptions=['subject is a valid value of its type (table twin of the generated automaton as kani::assume)',
                     'oracle: RFC 3986 Appendix B regular expression, harness/src/oracle.rs::split_ref'],
    ),
}
