"""Per-property configuration (what is outside the bounds, stubs in force,
assumptions).  Harness membership comes from the `// @h` annotations in
/verif/harness/src/*.rs; Engine D task lists from tasks_d.py."""

TABLE_STUB = ('kani::assume(table_walk(bytes)) as the validity precondition for the big-DFA types (Uri, UriRef, Iri, IriRef, Authority, Host): '
              'the table is regenerated on every run from the macro expansion of the current tree and compared natively with the real constructors')

HOOK_COMMITS = ['7dfbf17']

BMC_NOTE = ('Bounded: holds for every input within the byte bounds stated in the evidence, not beyond. Trusted: Kani MIR->goto translation, CBMC/CaDiCaL, '
            'the harness oracle, and the table twins used as validity preconditions (regenerated per run, validated natively).')

PENDING = 'check not built yet in this session (see DESIGN.md section 4 for the plan); will be claimed when its harnesses are committed'
NOT_APPLICABLE = {
    'C06': 'resolve() as a whole exhausts 26-38 GB in CBMC at the smallest meaningful bounds (base<=4, ref<=3) and Kani cannot stub the private trait methods it chains; its kernels are decided under C05/C09/C10/C12 (DESIGN.md section 4, C06)',
    'C15': 'relative_to alone times out at 50 min/13 GB with 4 symbolic bytes and the round trip additionally needs resolve (C06): no bound within reach (DESIGN.md section 4, C15)',
    'C17': 'subject is a proc-macro (proc_macro::TokenStream, syn, rustc compiling the quote! output): not compilable by Kani nor translatable to SMT; the acceptance test inside the macro is the run-time constructor decided under C01 (DESIGN.md section 5)',
}
for _i in range(1, 21):
    NOT_APPLICABLE.setdefault('C%02d' % _i, PENDING)

PROPS = {
    'C02': dict(
        technique='Kani/CBMC bounded model checking of the real accessors against an RFC 3986 App. B oracle, SAT-decided over all valid texts within the bound',
        level_text='For every valid text up to the stated byte bound (all bytes, all component shapes) CBMC proves each accessor and parts() field equal, as pointer and length, to the RFC 3986 Appendix B decomposition, and the ranges tile the text; bounded, not a proof for all lengths.',
        level_note=BMC_NOTE,
        outside='texts longer than the byte bound of each harness (12-16 bytes URI family, 10-14 IRI family)',
        stubs=[TABLE_STUB],
        assumptions=['subject is a valid value of its type (table twin of the generated automaton as kani::assume)',
                     'oracle: RFC 3986 Appendix B regular expression, harness/src/oracle.rs::split_ref'],
    ),
    'C03': dict(
        technique='Kani/CBMC bounded model checking of the real authority scanners against an RFC 3986 section 3.2 oracle, SAT-decided over all valid authorities within the bound',
        level_text='For every valid authority up to the stated byte bound CBMC proves user_info()/host()/port() and parts() equal, as pointer and length, to the section 3.2 split (user info before the @, bracketed IP literal or text up to the next colon, digits after it), presence distinguished from emptiness, each part valid for its own type; bounded.',
        level_note=BMC_NOTE,
        outside='authorities longer than the byte bound (12-16 bytes; IPv6 text longer than that is only covered by the grammar side, C01)',
        stubs=[TABLE_STUB],
        assumptions=['subject is a valid authority (table twin as kani::assume)', 'oracle: harness/src/oracle.rs::split_auth'],
    ),
    'C12': dict(
        technique='Kani/CBMC bounded model checking of the real segment iterators under a symbolic next/next_back schedule, and of the path queries, against a slash-split oracle',
        level_text='For every valid path up to the byte bound and every interleaving of front/back steps (one symbolic choice bit per step) CBMC proves each yielded item is exactly the next slash-separated piece from that end (pointer and length), that front and back never cross and the iterator stays exhausted; is_empty/is_absolute/segment_count/first/last/file_name/directory/parent/parent_or_empty agree with that sequence; bounded.',
        level_note=BMC_NOTE,
        outside='paths longer than the byte bound (8-12 bytes URI, 7 bytes IRI); normalized_segments().len() is decided by the C09 harnesses',
        stubs=['IRI paths: byte-level table twin of the char automaton as the validity test (URI paths use the real Path::new)'],
        assumptions=['oracle: harness/src/oracle.rs::split_path (pieces between slashes after the optional leading slash)',
                     'parent() of //x is the documented /./ and parent() of a single relative segment is None (as the repository tests state)'],
    ),
    'C01': dict(
        engine='D+K', engine_d='c01',
        technique='SMT (z3, cvc5 cross-check): inductive equivalence of the automata recovered from the compiler expansion with an RFC-ABNF reference automaton (all lengths) + bounded witness query; Kani/CBMC for the constructor glue',
        level_text='Language side: for each of the 20 validated types, in two build configurations (automaton cache used / removed), the solver certifies an inductive relation between the generated validate() automaton and a reference DFA compiled by /verif from its own copy of RFC 3986 App. A / RFC 3987 2.2, i.e. equality of the accepted languages for strings of every length, and re-decides it as a bounded query that yields a concrete distinguishing string (replayed against the real constructor) when it fails. Glue side: CBMC shows for every input within the byte bound that each construction route returns Ok exactly when validate accepts, keeps the text (same pointer/bytes) and returns the untouched input in the error; bounded.',
        level_note='Trusted: rustc expansion printer and the extraction regex (cross-checked natively: table twins vs real constructors on seeded strings every run), the ABNF reference compiler and RFC transcriptions in /verif/engine_d, z3 (cvc5 re-decides the inductive queries in the thorough tier). The inductive queries are unbounded in string length; the glue harnesses are bounded (6-8 bytes).',
        outside='glue beyond 8 bytes; serde formats other than handing the visitor a str/bytes/String/Vec; a stale incremental artefact in a user target/ directory',
        stubs=['glue harnesses of the six big-DFA types: validate stubbed by its table twin (same automaton, extracted per run) via #[kani::stub]'],
        assumptions=['reference grammar: /verif/engine_d/refspec/rfc3986.abnf, rfc3987.abnf; entry productions per engine_d/dfa.py::ENTRIES',
                     'IRI symbol domain: Unicode scalar values (surrogates excluded)'],
    ),
    'C13': dict(
        engine='D+K', engine_d='c13',
        technique='SMT (z3): inductive inclusion L(uri::X) in L(iri::X) and L(Uri)=L(UriRef) restricted to first-delimiter-is-colon over the extracted automata (all lengths); Kani/CBMC for every conversion function',
        level_text='The facts the unchecked URI->IRI and reference->absolute casts rely on are certified by the solver for strings of every length over the automata extracted from the current tree; every as_*/into_*/try_into_*/TryFrom/From conversion is model-checked for all inputs within the byte bound: success condition = oracle condition, success preserves the text, failure returns the original; bounded for the conversions.',
        level_note='Trusted as C01 for the automata; as the other Kani checks for the conversions. Cross-family identity of resolution is not decided (resolve is out of reach, C06).',
        outside='conversions on texts beyond the byte bound (8-12 bytes); cross-family agreement of resolution',
        stubs=[TABLE_STUB, 'Uri::validate / Iri::validate stubbed by their table twins where a conversion calls the checked constructor'],
        assumptions=['bytes 0-127 identified with the chars U+0000-U+007F'],
    ),
}
