"""Runner core: scratch preparation from /repo's current working tree, Kani
execution with resource caps, result parsing, concrete-playback decoding,
native replay, evidence writing."""
import os, sys, re, json, time, hashlib, subprocess, fcntl, shutil, resource, signal, threading

VERIF = os.path.dirname(os.path.dirname(os.path.abspath(__file__)))
REPO = os.environ.get('VERIF_REPO', '/repo')
SCRATCH = os.environ.get('VERIF_SCRATCH', '/var/tmp/iref-verif')
GUARD = '--cfg iref_verif'
sys.path.insert(0, os.path.join(VERIF, 'engine_d'))

EXIT_OK, EXIT_VIOLATION, EXIT_INCONCLUSIVE = 0, 1, 2


class Inconclusive(Exception):
    pass


def log(*a):
    print('[verif]', *a, file=sys.stderr, flush=True)


def sh(cmd, cwd=None, env=None, timeout=None, check=True, capture=True):
    e = dict(os.environ)
    e['CARGO_NET_OFFLINE'] = 'true'
    if env:
        e.update(env)
    p = subprocess.run(cmd, cwd=cwd, env=e, timeout=timeout, text=True,
                       stdout=subprocess.PIPE if capture else None, stderr=subprocess.STDOUT if capture else None)
    if check and p.returncode != 0:
        raise Inconclusive('command failed (%d): %s\n%s' % (p.returncode, ' '.join(cmd), (p.stdout or '')[-4000:]))
    return p


def tree_hash(root):
    h = hashlib.sha256()
    for d, dirs, files in os.walk(root):
        dirs[:] = sorted(x for x in dirs if x not in ('.git', 'target'))
        for f in sorted(files):
            p = os.path.join(d, f)
            if os.path.islink(p) or not os.path.isfile(p):
                continue
            h.update(os.path.relpath(p, root).encode() + b'\0')
            with open(p, 'rb') as fh:
                h.update(hashlib.sha256(fh.read()).digest())
    return h.hexdigest()


def write_if_changed(path, content):
    try:
        if open(path).read() == content:
            return False
    except FileNotFoundError:
        pass
    os.makedirs(os.path.dirname(path), exist_ok=True)
    with open(path, 'w') as f:
        f.write(content)
    return True


# ------------------------------------------------------------------ harness db
H_RE = re.compile(r'// @h (.*)\n(?:\s*#\[[^\n]*\]\n|\s*//[^\n]*\n)*\s*pub fn (\w+)\(\)')


def scan_harnesses():
    """Harness annotations: `// @h prop=C02,C20 tier=quick kind=check bound="..." encodes="..."`."""
    out = []
    src = os.path.join(VERIF, 'harness', 'src')
    for fn in sorted(os.listdir(src)):
        if not fn.endswith('.rs'):
            continue
        text = open(os.path.join(src, fn)).read()
        mod = fn[:-3]
        for m in H_RE.finditer(text):
            attrs = {}
            for k, v in re.findall(r'(\w+)=("[^"]*"|\S+)', m.group(1)):
                attrs[k] = v.strip('"')
            # `prop=C05,C04:thorough`: listed under C04 in the thorough tier only
            attrs['props'] = []
            attrs['prop_tier'] = {}
            for it in attrs.get('prop', '').split(','):
                pid, _, ov = it.partition(':')
                attrs['props'].append(pid)
                if ov:
                    attrs['prop_tier'][pid] = ov
            attrs['name'] = '%s::%s' % (mod, m.group(2))
            attrs.setdefault('tier', 'quick')
            attrs.setdefault('kind', 'check')
            attrs['timeout'] = int(attrs.get('timeout', 1500))
            attrs['mem'] = int(attrs.get('mem', 7))
            out.append(attrs)
    return out


def all_harness_fns():
    """Every `pub fn x()` carrying a kani::proof attribute, for the native registry."""
    out = []
    src = os.path.join(VERIF, 'harness', 'src')
    for fn in sorted(os.listdir(src)):
        if not fn.endswith('.rs'):
            continue
        text = open(os.path.join(src, fn)).read()
        for m in re.finditer(r'#\[cfg_attr\(kani, kani::proof\)\]\n(?:\s*#\[[^\n]*\]\n)*\s*pub fn (\w+)\(\)', text):
            out.append((fn[:-3], m.group(1)))
    return out


# ------------------------------------------------------------------- prepare
class Ctx:
    pass


def prepare(seed=0, need_native=True):
    """Bring the scratch area in line with /repo's *current working tree* and
    regenerate everything derived from it.  Holds a lock for the duration."""
    import dfa
    os.makedirs(SCRATCH, exist_ok=True)
    lock = open(os.path.join(SCRATCH, '.lock'), 'w')
    fcntl.flock(lock, fcntl.LOCK_EX)
    try:
        ctx = Ctx()
        ctx.scratch = SCRATCH
        ctx.src = os.path.join(SCRATCH, 'src')
        ctx.harness = os.path.join(SCRATCH, 'harness')
        t0 = time.time()
        h = tree_hash(REPO)
        ctx.tree_hash = h
        hp = os.path.join(SCRATCH, 'src.hash')
        old = open(hp).read().strip() if os.path.exists(hp) else None
        if old != h or not os.path.isdir(ctx.src):
            log('syncing working tree of', REPO, '->', ctx.src)
            if os.path.exists(hp):
                os.unlink(hp)
            sh(['rsync', '-a', '--delete', '--exclude', '/target', '--exclude', '/.git', REPO + '/', ctx.src + '/'])
            # cargo does not track the grammar / automaton cache files the
            # proc-macro reads: force iref-core to be rebuilt.
            os.utime(os.path.join(ctx.src, 'crates/core/src/lib.rs'))
            for f in ('expanded.rs', 'dfas.json'):
                p = os.path.join(SCRATCH, f)
                if os.path.exists(p):
                    os.unlink(p)
            open(hp, 'w').write(h)
        exp = os.path.join(SCRATCH, 'expanded.rs')
        if not os.path.exists(exp):
            log('expanding iref-core (rustc -Zunpretty=expanded)')
            p = subprocess.run(
                ['cargo', '+nightly', 'rustc', '--offline', '-p', 'iref-core', '--lib', '--features', 'serde,data',
                 '--', '-Zunpretty=expanded'], cwd=ctx.src, text=True, stdout=subprocess.PIPE, stderr=subprocess.PIPE,
                env=dict(os.environ, CARGO_NET_OFFLINE='true', CARGO_TARGET_DIR=os.path.join(SCRATCH, 'target-expand'), RUSTFLAGS=GUARD))
            if p.returncode != 0 or 'pub fn validate' not in p.stdout:
                raise Inconclusive('macro expansion of the current tree failed:\n' + p.stderr[-3000:])
            open(exp + '.tmp', 'w').write(p.stdout)
            os.replace(exp + '.tmp', exp)
        dj = os.path.join(SCRATCH, 'dfas.json')
        tables_tmp = os.path.join(SCRATCH, 'tables.rs')
        gen_key = h + ':' + hashlib.sha256(open(os.path.join(VERIF, 'engine_d', 'dfa.py'), 'rb').read()).hexdigest()
        kp = os.path.join(SCRATCH, 'tables.key')
        if not os.path.exists(dj) or not os.path.exists(tables_tmp) or not os.path.exists(kp) or open(kp).read() != gen_key:
            try:
                dfas = dfa.extract(open(exp).read())
            except Exception as e:
                raise Inconclusive('could not recover the generated automata from the expansion: %r' % (e,))
            missing = [k for k in dfa.ENTRIES if k not in dfas]
            if missing:
                raise Inconclusive('generated validate() not found for %r' % (missing,))
            src, info = dfa.emit_all(dfas)
            open(tables_tmp, 'w').write(src)
            json.dump(info, open(os.path.join(SCRATCH, 'tables.info.json'), 'w'))
            dfa.save(dfas, dj)
            open(kp, 'w').write(gen_key)
        ctx.dfas = dfa.load(dj)
        ctx.table_info = json.load(open(os.path.join(SCRATCH, 'tables.info.json')))
        # harness crate
        sh(['rsync', '-a', '--delete', '--checksum', '--exclude', '/target', '--exclude', '/Cargo.lock',
            '--exclude', '/src/gen/tables.rs', '--exclude', '/src/gen/registry.rs',
            os.path.join(VERIF, 'harness') + '/', ctx.harness + '/'])
        write_if_changed(os.path.join(ctx.harness, 'src/gen/tables.rs'), open(tables_tmp).read())
        reg = ['// GENERATED: harness registry for native replay', 'pub static HARNESSES: &[(&str, fn())] = &[']
        for mod, fn in all_harness_fns():
            reg.append('    ("%s::%s", crate::%s::%s),' % (mod, fn, mod, fn))
        reg.append('];')
        write_if_changed(os.path.join(ctx.harness, 'src/gen/registry.rs'), '\n'.join(reg) + '\n')
        lockf = os.path.join(ctx.harness, 'Cargo.lock')
        if not os.path.exists(lockf):
            shutil.copy(os.path.join(ctx.src, 'Cargo.lock'), lockf)
        ctx.native = {}
        if need_native:
            build_native(ctx, 'dev')
            p = sh([ctx.native['dev'], 'tables', str(seed), '60000'], check=False)
            ctx.table_validation = p.stdout.strip().splitlines()[-1] if p.stdout.strip() else ''
            if p.returncode != 0 or 'mismatches=0' not in p.stdout:
                raise Inconclusive('translator validation failed: table twins disagree with the real constructors:\n' + p.stdout[-2000:])
        ctx.prepare_s = round(time.time() - t0, 1)
        return ctx
    finally:
        fcntl.flock(lock, fcntl.LOCK_UN)
        lock.close()


def build_native(ctx, profile):
    if profile in ctx.native:
        return ctx.native[profile]
    tdir = os.path.join(SCRATCH, 'target-native')
    cmd = ['cargo', 'build', '--offline', '--bin', 'native']
    if profile == 'release':
        cmd.append('--release')
    p = sh(cmd, cwd=ctx.harness, env={'CARGO_TARGET_DIR': tdir, 'RUSTFLAGS': GUARD + ' -Awarnings'}, check=False)
    if p.returncode != 0:
        raise Inconclusive('native build of the harness crate failed:\n' + p.stdout[-6000:])
    ctx.native[profile] = os.path.join(tdir, 'debug' if profile == 'dev' else 'release', 'native')
    return ctx.native[profile]


# ---------------------------------------------------------------------- kani
NSLOTS = int(os.environ.get('VERIF_JOBS', '8'))


def acquire_slot():
    while True:
        for i in range(16):
            p = os.path.join(SCRATCH, 'kt%d.lock' % i)
            f = open(p, 'w')
            try:
                fcntl.flock(f, fcntl.LOCK_EX | fcntl.LOCK_NB)
                return i, f
            except OSError:
                f.close()
        time.sleep(1)


def _limits(mem_gb):
    def f():
        os.setsid()
        # address-space cap for the whole process tree of the harness (cargo,
        # kani-driver, cbmc): CBMC's virtual size runs ahead of its resident
        # size and kani-driver itself needs a few GB to parse CBMC's output
        lim = int((mem_gb * 1.25 + 3) * (1 << 30))
        resource.setrlimit(resource.RLIMIT_AS, (lim, lim))
    return f


def run_kani(ctx, h, extra_cfg=(), logdir=None):
    """Run one harness.  Returns a result dict; never raises for solver outcomes."""
    name = h['name']
    slot, lockf = acquire_slot()
    t0 = time.time()
    logdir = logdir or os.path.join(SCRATCH, 'logs')
    os.makedirs(logdir, exist_ok=True)
    logp = os.path.join(logdir, name.replace('::', '.') + '.log')
    flags = GUARD + ''.join(' --cfg ' + c for c in extra_cfg)
    cmd = ['cargo', 'kani', '-Z', 'stubbing', '-Z', 'concrete-playback', '--concrete-playback=print',
           '--harness', name, '--exact', '--target-dir', os.path.join(SCRATCH, 'kt%d' % slot)]
    if h.get('reach') == '0':
        # Kani's assertion-reachability checks are extra satisfiable SAT queries on the
        # full formula (a third of the run time for the buffer-editing harnesses);
        # the runner never used their UNREACHABLE verdicts - vacuity is guarded by the
        # harness's own kani::cover! witnesses, which stay on
        cmd.insert(2, '--no-assertion-reach-checks')
    env = dict(os.environ, CARGO_NET_OFFLINE='true', RUSTFLAGS=flags)
    res = dict(harness=name, kind=h['kind'], bound=h.get('bound', ''), encodes=h.get('encodes', ''),
               stretch=(h.get('tier') == 'thorough' and h.get('must') != '1'), expect=h.get('expect', 'WITNESS'))
    try:
        with open(logp, 'w') as lf:
            p = subprocess.Popen(cmd, cwd=ctx.harness, env=env, stdout=lf, stderr=subprocess.STDOUT, preexec_fn=_limits(h['mem']))
            try:
                p.wait(timeout=h['timeout'])
                res['timed_out'] = False
            except subprocess.TimeoutExpired:
                res['timed_out'] = True
                try:
                    os.killpg(p.pid, signal.SIGKILL)
                except ProcessLookupError:
                    pass
                p.wait()
        res['exit'] = p.returncode
    finally:
        fcntl.flock(lockf, fcntl.LOCK_UN)
        lockf.close()
    res['wall_s'] = round(time.time() - t0, 1)
    res['log'] = logp
    parse_kani_log(open(logp, errors='replace').read(), res)
    return res


def parse_kani_log(text, res):
    res['status'] = 'error'
    if res.get('timed_out'):
        res['status'] = 'timeout'
        return
    m = re.search(r'VERIFICATION:- (SUCCESSFUL|FAILED)', text)
    if 'CBMC appears to have run out of memory' in text or 'ran out of memory' in text or ('CBMC failed' in text and 'Failed Checks' not in text):
        # out of memory / solver crash is never a verdict
        res['status'] = 'oom'
        res['detail'] = 'CBMC failed or ran out of memory'
        return
    if 'error: could not compile' in text or re.search(r'^error(\[E\d+\])?:', text, re.M) and not m:
        res['status'] = 'compile_error'
        res['detail'] = '\n'.join(l for l in text.splitlines() if l.startswith('error'))[:2000]
        return
    if not m:
        if 'out of memory' in text.lower() or 'std::bad_alloc' in text or 'Status: ERROR' in text:
            res['status'] = 'oom'
        return
    sm = re.search(r'\*\* (\d+) of (\d+) failed(?: \((.*?)\))?', text)
    if sm:
        res['checks_failed'] = int(sm.group(1))
        res['checks_total'] = int(sm.group(2))
        res['checks_note'] = sm.group(3) or ''
    cm = re.search(r'\*\* (\d+) of (\d+) cover properties satisfied', text)
    if cm:
        res['covers_sat'] = int(cm.group(1))
        res['covers_total'] = int(cm.group(2))
    # individual checks: description + status (+ location)
    failed = []
    covers = []
    user_checks = 0
    for cm_ in re.finditer(r'Check \d+: ([^\n]+)\n\s+- Status: (\w+)\n\s+- Description: "(.*?)"\n\s+- Location: (\S+)', text, re.S):
        cid, st, desc, loc = cm_.groups()
        if '.cover.' in cid:
            covers.append((desc, st))
        elif st in ('FAILURE', 'UNDETERMINED', 'UNREACHABLE') and st != 'UNREACHABLE':
            failed.append(dict(id=cid, status=st, description=desc, location=loc))
        if 'iref_verif_harness' in cid or loc.startswith('src/') or 'iref_core' in cid or '/crates/core/' in loc:
            user_checks += 1
    res['failed_checks'] = failed
    res['covers'] = covers
    res['user_checks'] = user_checks
    tm = re.search(r'Verification Time: ([\d.]+)s', text)
    if tm:
        res['solver_s'] = float(tm.group(1))
    vm = re.findall(r'(\d+) variables, (\d+) clauses', text)
    if vm:
        res['sat_vars'], res['sat_clauses'] = int(vm[0][0]), int(vm[0][1])
    # concrete playback blocks
    plays = []
    for blk in text.split('Concrete playback unit test for')[1:]:
        pm = re.search(r'/// Check for `(\w+)`: "(.*?)"[ \t]*\n(?:///[ \t]*\n|[ \t]*\n|#\[test\])', blk, re.S)
        vm0 = re.search(r'let concrete_vals: Vec<Vec<u8>> = vec!\[(.*?)\n\s*\];', blk, re.S)
        if not pm or not vm0:
            continue
        vals = []
        for vm_ in re.finditer(r'vec!\[([\d, ]*)\]', vm0.group(1)):
            vals.append([int(x) for x in vm_.group(1).replace(' ', '').split(',') if x])
        flat = bytes(b for v in vals for b in v)
        plays.append(dict(kind=pm.group(1), description=pm.group(2).strip('"'), values=vals, hex=flat.hex(), shown=show_values(vals)))
    res['playback'] = plays
    if m.group(1) == 'SUCCESSFUL':
        res['status'] = 'success'
    else:
        res['status'] = 'failed'


def native_replay(ctx, harness, hexvals, profile='dev'):
    exe = build_native(ctx, profile)
    p = subprocess.run([exe, 'replay', harness, hexvals], text=True, capture_output=True, timeout=120, env=dict(os.environ, RUST_BACKTRACE='0'))
    out = p.stdout
    m = re.search(r'RESULT (\w+)(.*)', out)
    covers = re.findall(r'COVER (.*)', out)
    if m:
        return dict(result=m.group(1), message=m.group(2).strip(), covers=covers, profile=profile)
    # aborted (e.g. overflow panic inside a no-unwind frame, or a crash)
    return dict(result='crash', message=(p.stderr or '')[-500:], covers=covers, profile=profile, exit=p.returncode)


def show_values(vals):
    """Render a playback assignment: runs of one-byte values as text, wider
    values as integers (kani::any() call order)."""
    out = []
    run = []

    def flush():
        if run:
            out.append(''.join(chr(c) if 32 <= c < 127 and c != 92 else '\\x%02x' % c for c in run))
            run.clear()
    for v in vals:
        if len(v) == 1:
            run.append(v[0])
        else:
            flush()
            out.append(int.from_bytes(bytes(v), 'little') if len(v) <= 8 else bytes(v).hex())
    flush()
    return out


def decode_sample(hexvals, limit=64):
    b = bytes.fromhex(hexvals)
    return ''.join(chr(c) if 32 <= c < 127 else '\\x%02x' % c for c in b[:limit])


# ------------------------------------------------------------------ evidence
def write_evidence(pid, ev):
    d = os.environ.get('VERIF_EVIDENCE_DIR', os.path.join(VERIF, 'evidence'))
    os.makedirs(d, exist_ok=True)
    p = os.path.join(d, pid + '.json')
    with open(p + '.tmp', 'w') as f:
        json.dump(ev, f, indent=1, sort_keys=True)
    os.replace(p + '.tmp', p)
    return p
