"""Engine D task lists for C01 (language = RFC grammar) and C13 (URI inside
IRI, reference-with-scheme = URI/IRI)."""
import os, sys, json, time, subprocess, shutil
import core
from core import log, Inconclusive
import dfa, smt

BIG = [('uri', 'Uri'), ('uri', 'UriRef'), ('uri', 'Authority'), ('uri', 'Host'),
       ('iri', 'Iri'), ('iri', 'IriRef'), ('iri', 'Authority'), ('iri', 'Host')]


def sym_text(fam, syms):
    if fam == 'uri':
        return bytes(syms)
    return ''.join(chr(c) for c in syms).encode('utf-8', 'surrogatepass')


def nocache_dfas(ctx):
    """Configuration B: the same tree with the automaton cache files removed, so
    the proc-macro recompiles every grammar.  Cached by tree hash."""
    root = os.path.join(ctx.scratch, 'nocache')
    hp = os.path.join(root, 'src.hash')
    dj = os.path.join(root, 'dfas.json')
    if os.path.exists(hp) and open(hp).read().strip() == ctx.tree_hash and os.path.exists(dj):
        return dfa.load(dj)
    os.makedirs(root, exist_ok=True)
    if os.path.exists(hp):
        os.unlink(hp)
    core.sh(['rsync', '-a', '--delete', '--exclude', '/target', ctx.src + '/', os.path.join(root, 'src') + '/'])
    n = 0
    for d, _, files in os.walk(os.path.join(root, 'src', 'crates', 'core', 'automata')):
        for f in files:
            if f.endswith('.cbor'):
                os.unlink(os.path.join(d, f))
                n += 1
    os.utime(os.path.join(root, 'src', 'crates/core/src/lib.rs'))
    log('configuration B: %d cache files removed, expanding' % n)
    p = subprocess.run(['cargo', '+nightly', 'rustc', '--offline', '-p', 'iref-core', '--lib', '--features', 'serde,data', '--', '-Zunpretty=expanded'],
                       cwd=os.path.join(root, 'src'), text=True, stdout=subprocess.PIPE, stderr=subprocess.PIPE,
                       env=dict(os.environ, CARGO_NET_OFFLINE='true', CARGO_TARGET_DIR=os.path.join(root, 'target'), RUSTFLAGS=core.GUARD))
    if p.returncode != 0 or 'pub fn validate' not in p.stdout:
        raise Inconclusive('configuration B (no automaton cache): expansion failed:\n' + p.stderr[-3000:])
    try:
        dfas = dfa.extract(p.stdout)
    except Exception as e:
        raise Inconclusive('configuration B: automata not recoverable: %r' % (e,))
    dfa.save(dfas, dj)
    open(hp, 'w').write(ctx.tree_hash)
    return dfas


def real_verdict(ctx, fam, name, text, config):
    """Verdict of the real validating constructor for `text` (bytes)."""
    if config == 'A':
        exe = core.build_native(ctx, 'dev')
    else:
        # build the native tool against the cache-less copy (only reached on a violation)
        root = os.path.join(ctx.scratch, 'nocache')
        core.sh(['rsync', '-a', '--delete', '--exclude', '/target', ctx.harness + '/', os.path.join(root, 'harness') + '/'])
        dfas = dfa.load(os.path.join(root, 'dfas.json'))
        src, _ = dfa.emit_all(dfas)
        open(os.path.join(root, 'harness/src/gen/tables.rs'), 'w').write(src)
        core.sh(['cargo', 'build', '--offline', '--bin', 'native'], cwd=os.path.join(root, 'harness'),
                env={'CARGO_TARGET_DIR': os.path.join(root, 'target-native'), 'RUSTFLAGS': core.GUARD + ' -Awarnings'})
        exe = os.path.join(root, 'target-native/debug/native')
    p = subprocess.run([exe, 'accepts', '%s::%s' % (fam, name), text.hex() or '00' * 0], capture_output=True, text=True)
    out = p.stdout.strip()
    if 'REAL' not in out:
        raise Inconclusive('native accepts failed: ' + out + p.stderr[-500:])
    return out.split()[1] == 'true'


def compare(ctx, A, B, mode, label, fam, K, cross, res, meaning, config='A', impl_type=None):
    """One language question: product exploration proposes, the solver decides
    (inductive certificate, all lengths) and confirms (bounded, with witness)."""
    ok, witness, R = dfa.product(A, B, mode)
    nreps = len(dfa.symbol_reps(A.breakpoints() | B.breakpoints(), min(A.maxsym, B.maxsym)))
    res['states'] += len(R)
    res['transitions'] += len(R) * nreps
    st = []
    if ok:
        r = smt.inductive(A, B, R, mode, label + ' [inductive, all lengths]', st, cross)
        for q in st:
            q['ok'] = q['result'] == 'unsat'
            q['nontrivial'] = A.n > 1 or B.n > 1
            q['pairs'] = len(R)
        res['queries'] += st
        if r != 'unsat' or any(not q['ok'] for q in st):
            res['inconclusive'].append('%s: product exploration closed but the solver rejects the certificate (%s)' % (label, r))
        st = []
        r, w = smt.bounded(A, B, K, mode, label + ' [bounded, length <= %d]' % K, st)
        for q in st:
            q['ok'] = q['result'] == 'unsat'
            q['nontrivial'] = A.n > 1 or B.n > 1
        res['queries'] += st
        if r != 'unsat':
            res['inconclusive'].append('%s: bounded query says %s but the inductive certificate holds' % (label, r))
        return True
    # a difference: the solver decides it (the explored relation, including the
    # offending pair, is not an acceptance-respecting closed relation: sat), and
    # re-decides it as a bounded query with a witness when the string is short
    st = []
    r = smt.inductive(A, B, R, mode, label + ' [inductive: explored relation is NOT a certificate]', st, False)
    for q in st:
        q['ok'] = False
        q['nontrivial'] = True
    res['queries'] += st
    if r != 'sat':
        res['inconclusive'].append('%s: product exploration found a difference but the solver does not (%s)' % (label, r))
        return False
    st = []
    w2 = None
    if len(witness) <= max(K, 12):
        r, w2 = smt.bounded(A, B, max(K, len(witness)), mode, label + ' [bounded witness]', st)
        for q in st:
            q['ok'] = False
            q['nontrivial'] = True
        res['queries'] += st
    syms = w2 if w2 is not None else witness
    text = sym_text(fam, syms)
    v = dict(property=res['pid'], kind='language', question=label, meaning=meaning, config=config, family=fam,
             witness_symbols=syms, witness_hex=text.hex(), witness_text=text.decode('utf-8', 'replace'),
             solver_confirmed=True, solver_witness=w2 is not None)
    if impl_type:
        real = real_verdict(ctx, impl_type[0], impl_type[1], text, config)
        model = A.accepts(syms) if impl_type == (fam, impl_type[1]) else None
        v['real_constructor_accepts'] = real
        v['impl_type'] = '%s::%s' % impl_type
        implA = A.accepts(syms)
        v['extracted_automaton_accepts'] = implA
        if real != implA and v.get('check_real', True):
            res['inconclusive'].append('%s: extracted automaton and real constructor disagree on %r: extraction problem' % (label, text))
            return False
    v['summary'] = '%s (config %s): %s; distinguishing input %r' % (label, config, meaning, text)
    res['violations'].append(v)
    return False


def run(task, ctx, tier, seed):
    res = dict(queries=[], violations=[], samples=[], inconclusive=[], states=0, transitions=0, pid='C01' if task == 'c01' else 'C13')
    cross = tier == 'thorough'
    if task == 'c01':
        K = 8 if tier == 'quick' else 20
        configs = [('A', ctx.dfas), ('B', nocache_dfas(ctx))]
        res['configurations'] = ['A: tree as is (proc-macro takes automata/*.aut.cbor when the stored grammar hash matches)',
                                 'B: cache files removed (every grammar recompiled by the proc-macro)']
        res['automata'] = {}
        for cname, dfas in configs:
            for key in sorted(dfa.ENTRIES):
                fam, name = key
                A = dfas[key]
                B = dfa.reference(fam, name)
                res['automata']['%s %s::%s' % (cname, fam, name)] = dict(impl_states=A.n, reference_states=B.n)
                kk = K if key in BIG else max(K, 12)
                if key in BIG and fam == 'iri' and tier == 'quick':
                    kk = 6
                compare(ctx, A, B, 'equal', 'L(%s::%s) = L(RFC %s)' % (fam, name, dfa.ENTRIES[key][1]), fam, kk, cross and cname == 'A', res,
                        'the validating constructor and the RFC production %s disagree' % dfa.ENTRIES[key][1], cname, key)
        # solver-produced samples of what is accepted
        for key in [('uri', 'Uri'), ('iri', 'IriRef'), ('uri', 'Authority')]:
            st = []
            s = smt.accepting_sample(ctx.dfas[key], 9, 'sample of L(%s::%s), length 9' % key, st)
            if s is not None:
                res['samples'].append(dict(what='solver-produced member of L(%s::%s)' % key, text=sym_text(key[0], s).decode('utf-8', 'replace')))
    elif task == 'c13':
        K = 8 if tier == 'quick' else 16
        d = ctx.dfas
        pairs = [('Uri', 'Iri'), ('UriRef', 'IriRef'), ('Authority', 'Authority'), ('UserInfo', 'UserInfo'), ('Host', 'Host'),
                 ('Path', 'Path'), ('Segment', 'Segment'), ('Query', 'Query'), ('Fragment', 'Fragment')]
        for u, i in pairs:
            st = []
            r = smt.no_symbol_above(d[('uri', u)], 127, 'uri::%s has no transition on a byte above 127' % u, st)
            for q in st:
                q['ok'] = q['result'] == 'unsat'
            res['queries'] += st
            if r != 'unsat':
                res['violations'].append(dict(property='C13', kind='language', summary='uri::%s accepts a non-ASCII byte' % u, question='ascii only', witness_hex=''))
            kk = K if (u in ('Uri', 'UriRef', 'Authority', 'Host')) else 12
            compare(ctx, d[('uri', u)], d[('iri', i)], 'subset', 'L(uri::%s) subset of L(iri::%s)' % (u, i), 'uri', kk, cross, res,
                    'a valid uri::%s is not a valid iri::%s (the unchecked as_iri/into_iri casts rely on this)' % (u, i), 'A', None)
        S_uri = dfa.intersect_first_delim_colon(d[('uri', 'UriRef')])
        compare(ctx, d[('uri', 'Uri')], S_uri, 'equal', 'L(Uri) = L(UriRef) with a scheme', 'uri', K, cross, res,
                'a URI reference whose first delimiter is ":" is not exactly a URI (as_uri/try_into_uri rely on this)', 'A', None)
        S_iri = dfa.intersect_first_delim_colon(d[('iri', 'IriRef')])
        compare(ctx, d[('iri', 'Iri')], S_iri, 'equal', 'L(Iri) = L(IriRef) with a scheme', 'iri', 6 if tier == 'quick' else 12, cross, res,
                'an IRI reference whose first delimiter is ":" is not exactly an IRI', 'A', None)
        st = []
        s = smt.accepting_sample(d[('uri', 'Uri')], 8, 'sample of L(uri::Uri), length 8', st)
        if s is not None:
            res['samples'].append(dict(what='solver-produced URI (also shown to be an IRI by the inclusion certificate)', text=bytes(s).decode('latin-1')))
    return res


def replay(ctx, v):
    """Re-check a stored language violation against the real constructor."""
    if v.get('impl_type'):
        fam, name = v['impl_type'].split('::')
        real = real_verdict(ctx, fam, name, bytes.fromhex(v['witness_hex']), 'A')
        ref = dfa.reference(fam, name).accepts(v['witness_symbols'])
        print('input %r: real %s::%s accepts=%s, RFC reference accepts=%s' % (bytes.fromhex(v['witness_hex']), fam, name, real, ref))
        print('REPRODUCED' if real != ref else 'NOT REPRODUCED')
        return 1 if real != ref else 0
    print(v.get('summary'))
    return 1
