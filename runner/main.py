#!/usr/bin/env python3
"""./check <ID> [--tier quick|thorough]      decide one property on /repo's current tree
   ./check --replay <file>                   re-run a stored counterexample natively
Exit 0: held on everything explored (KNOWN-FINDING lines possible); 1: VIOLATION;
2: inconclusive (encoding/stub problem, timeout, OOM) -- never reported as success."""
import os, sys, json, time, argparse, concurrent.futures as cf
sys.path.insert(0, os.path.dirname(os.path.abspath(__file__)))
import core
from core import log, Inconclusive

TRUSTED = [
    'rustc macro-expansion printer (-Zunpretty=expanded) and Kani 0.68 MIR->goto translation',
    'CBMC 6.11 + CaDiCaL; z3 (cvc5 cross-check in the thorough tier)',
    "/verif's ABNF reference compiler and its transcription of RFC 3986 App. A / RFC 3987 2.2",
    'harness oracles in /verif/harness/src/oracle.rs (straight-line RFC reference code)',
    'Kani models of core/alloc primitives (memcmp, str::from_utf8, Vec)',
]


def load_known():
    p = os.path.join(core.VERIF, 'known_findings.json')
    if not os.path.exists(p):
        return []
    return json.load(open(p)).get('findings', [])


def main():
    ap = argparse.ArgumentParser()
    ap.add_argument('prop', nargs='?')
    ap.add_argument('--tier', default=os.environ.get('VERIF_TIER', 'quick'))
    ap.add_argument('--replay')
    ap.add_argument('--only', help='comma list of harness names (debugging)')
    ap.add_argument('--jobs', type=int, default=core.NSLOTS)
    args = ap.parse_args()
    seed = int(os.environ.get('VERIF_SEED', '0') or 0)
    if args.replay:
        return replay(args.replay, seed)
    pid = args.prop
    tier = args.tier if args.tier in ('quick', 'thorough') else 'quick'
    t0 = time.time()
    ev = dict(property_id=pid, tier=tier, seed=seed, level='model_checking', violations=0, wall_s=0.0,
              coverage=dict(evaluations=0, distinct_nontrivial=0, samples=[], rule='', trusted_base=TRUSTED),
              assumptions=[])
    code = core.EXIT_INCONCLUSIVE
    try:
        code = decide(pid, tier, seed, args, ev)
    except Inconclusive as e:
        log('INCONCLUSIVE:', e)
        ev['coverage']['inconclusive'] = str(e)[:2000]
        code = core.EXIT_INCONCLUSIVE
    finally:
        ev['wall_s'] = round(time.time() - t0, 1)
        ev['exit_code'] = code
        core.write_evidence(pid, ev)
    return code


def decide(pid, tier, seed, args, ev):
    import props
    spec = props.PROPS.get(pid)
    if spec is None:
        raise Inconclusive('no check registered for ' + str(pid))
    cov = ev['coverage']
    ctx = core.prepare(seed)
    cov['tree_hash'] = ctx.tree_hash
    cov['translator_validation'] = ctx.table_validation
    import re as _re
    _m = _re.search(r'checked=(\d+)', ctx.table_validation or '')
    # strings pushed through both the real constructors and the extracted table twins on this run
    cov['traces_validated_against_impl'] = int(_m.group(1)) if _m else 0
    known = [k for k in load_known() if k['property'] == pid or pid in k.get('also', [])]
    open_known = [k for k in known if k.get('status') == 'open']
    violations = []
    known_hits = []
    inconclusive = []
    # ---- known findings: the witness of every open entry must still fail natively
    active_cfg = []
    for k in open_known:
        r = core.native_replay(ctx, k['witness']['harness'], k['witness']['hex'])
        k['_replay'] = r
        if r['result'] in ('fail', 'crash'):
            known_hits.append(k)
            if k.get('class'):
                active_cfg.append('kf_' + k['class'])
        else:
            log('known finding %s no longer reproduces (%s); its class is NOT excluded in this run' % (k['id'], r['result']))
    # ---- Engine D
    queries = []
    if spec.get('engine_d'):
        import tasks_d
        dres = tasks_d.run(spec['engine_d'], ctx, tier, seed)
        queries = dres['queries']
        cov['engine_d'] = dict(queries=queries, automata=dres.get('automata'), configurations=dres.get('configurations'))
        for v in dres['violations']:
            violations.append(v)
        for s in dres.get('samples', []):
            cov['samples'].append(s)
        for i in dres.get('inconclusive', []):
            inconclusive.append(i)
        if dres.get('states'):
            cov['states'] = dres['states']
            cov['transitions'] = dres['transitions']
    # ---- Engine K
    hs = [h for h in core.scan_harnesses() if pid in h['props'] and (tier == 'thorough' or h.get('prop_tier', {}).get(pid, h['tier']) == 'quick')]
    if args.only:
        # debugging / seed runs: named harnesses of this property, whatever their tier
        only = args.only.split(',')
        hs = [h for h in core.scan_harnesses() if pid in h['props'] and (h['name'] in only or h['name'].split('::')[1] in only)]
        if not hs:
            raise Inconclusive('--only matched no harness of ' + pid)
    results = []
    if hs:
        log('running %d harness(es) for %s/%s with %d jobs' % (len(hs), pid, tier, args.jobs))
        # memory-aware scheduling: CBMC instances are memory-bound (2-25 GB each);
        # run as many as fit in the budget, biggest first
        import threading
        budget = int(os.environ.get('VERIF_MEM_GB', '52'))
        hs.sort(key=lambda h: (-h['mem'], -h['timeout']))
        pending = list(hs)
        cond = threading.Condition()
        state = dict(used=0, running=0)

        def worker(h):
            try:
                r = core.run_kani(ctx, h, tuple(active_cfg))
            except Exception as e:  # never lose a harness silently
                r = dict(harness=h['name'], kind=h['kind'], status='error', detail=repr(e), wall_s=0, bound=h.get('bound'), encodes=h.get('encodes'))
            with cond:
                state['used'] -= h['mem']
                state['running'] -= 1
                results.append(r)
                log('  %-40s %-8s %6.1fs checks=%s covers=%s/%s' % (r['harness'], r['status'], r['wall_s'], r.get('checks_total'), r.get('covers_sat'), r.get('covers_total')))
                cond.notify_all()
        threads = []
        with cond:
            while pending:
                started = False
                for h in list(pending):
                    if state['running'] < args.jobs and (state['used'] + h['mem'] <= budget or state['running'] == 0):
                        pending.remove(h)
                        state['used'] += h['mem']
                        state['running'] += 1
                        t = threading.Thread(target=worker, args=(h,))
                        t.start()
                        threads.append(t)
                        started = True
                if pending and not started:
                    cond.wait()
        for t in threads:
            t.join()
    results.sort(key=lambda r: r['harness'])
    obligations = 0
    discharged = 0
    nontrivial = 0
    not_completed = []
    for r in results:
        st = r['status']
        if r['kind'] == 'witness':
            # must fail, and only on the WITNESS assertion
            fc = r.get('failed_checks', [])
            if st == 'failed' and fc and all(r.get('expect', 'WITNESS') in c['description'] for c in fc):
                for pb in r.get('playback', [])[:1]:
                    cov['samples'].append(dict(harness=r['harness'], what='reachability witness (solver-produced input)', values_hex=pb['hex'], values=pb.get('shown')))
            elif st == 'success':
                inconclusive.append('vacuity: witness harness %s is unreachable (assumptions unsatisfiable?)' % r['harness'])
            elif st == 'failed':
                # a non-witness assertion failed inside the witness twin: treat like a check failure
                handle_failure(ctx, pid, r, violations, inconclusive, known_hits)
            else:
                inconclusive.append('%s: %s' % (r['harness'], st))
            continue
        if st == 'success':
            bad = [d for d, s in r.get('covers', []) if s != 'SATISFIED']
            if bad and r.get('stretch'):
                # a thorough-only harness whose reachability witnesses are not all met is
                # not counted at all (nothing is claimed for it)
                not_completed.append('%s: witnesses not reached within the bound %r - not counted (bound: %s)' % (r['harness'], bad, r.get('bound')))
                continue
            obligations += r.get('checks_total', 0)
            discharged += r.get('checks_total', 0) - r.get('checks_failed', 0)
            nontrivial += r.get('user_checks', 0)
            if bad:
                inconclusive.append('vacuity: covers not satisfied in %s: %r' % (r['harness'], bad))
            for pb in [p for p in r.get('playback', []) if p['kind'] == 'cover'][:3]:
                cov['samples'].append(dict(harness=r['harness'], what='cover: ' + pb['description'], values_hex=pb['hex'], values=pb.get('shown')))
        elif st == 'failed':
            unw = [c for c in r.get('failed_checks', []) if 'unwinding assertion' in c['description']]
            if unw and r.get('stretch'):
                # the unwinding bound of a thorough-only harness is too small for its
                # stated byte bound: every verdict of that run is void, nothing is
                # claimed for it; the mandatory harnesses still have to pass
                not_completed.append('%s: unwinding bound too small at %s - verdicts void (bound: %s)' % (r['harness'], unw[0]['location'], r.get('bound')))
                continue
            obligations += r.get('checks_total', 0)
            discharged += r.get('checks_total', 0) - r.get('checks_failed', 0)
            handle_failure(ctx, pid, r, violations, inconclusive, known_hits)
        elif r.get('stretch') and st in ('timeout', 'oom'):
            # thorough-only deeper bound that did not fit under its cap: recorded as
            # NOT decided, never as held; the mandatory (quick-tier) harnesses of the
            # property still have to pass
            not_completed.append('%s: %s after %ss (bound: %s)' % (r['harness'], st, r.get('wall_s'), r.get('bound')))
        else:
            inconclusive.append('%s: %s (%s)' % (r['harness'], st, r.get('detail', '')[:300]))
    cov['not_completed'] = not_completed
    # ---- evidence
    nq = len(queries)
    cov['evaluations'] = obligations + nq
    cov['distinct_nontrivial'] = nontrivial + len([q for q in queries if q.get('nontrivial', True)])
    cov['obligations'] = obligations + nq
    cov['discharged'] = discharged + len([q for q in queries if q.get('ok')])
    cov['checker_cmd'] = 'cargo kani -Z stubbing -Z concrete-playback --concrete-playback=print --harness <h> --exact (CBMC 6.11/CaDiCaL); z3 via engine_d/smt.py'
    cov['rule'] = ('evaluations = CBMC properties (assertions, cover, overflow, bounds, pointer and unwinding checks) decided by the SAT solver over all '
                   'inputs within each harness bound, plus SMT queries; distinct_nontrivial counts those located in iref-core or in the harness/oracle '
                   '(std-internal checks excluded) plus SMT queries over automata with more than one state. samples are solver-produced inputs '
                   '(satisfied covers / reachability witnesses / counterexamples).')
    cov['harnesses'] = [dict((k, r.get(k)) for k in ('harness', 'kind', 'status', 'bound', 'encodes', 'wall_s', 'solver_s', 'checks_total', 'checks_failed', 'covers_sat', 'covers_total', 'sat_vars', 'sat_clauses')) for r in results]
    cov['functions_encoded'] = sorted(set(x.strip() for r in results for x in (r.get('encodes') or '').split(';') if x.strip()))
    cov['bounds'] = sorted(set(r['bound'] for r in results if r.get('bound')))
    cov['outside_bounds'] = spec.get('outside', '')
    cov['stubs'] = spec.get('stubs', [])
    cov['solver_time_s'] = round(sum(r.get('solver_s', 0) for r in results) + sum(q.get('time_s', 0) for q in queries), 1)
    cov['exhaustive'] = False
    cov['known_findings'] = [dict(id=k['id'], what=k['what']) for k in known_hits]
    ev['assumptions'] = spec.get('assumptions', []) + ['inputs restricted to the byte bounds listed in coverage.bounds; see coverage.outside_bounds']
    ev['violations'] = len(violations)
    if not cov['samples']:
        cov['samples'].append(dict(note='no solver-produced sample in this run'))
    for k in known_hits:
        print('KNOWN-FINDING: property=%s %s' % (pid, k['what']), flush=True)
    if violations:
        rdir = os.environ.get('VERIF_REPLAY_DIR', os.path.join(core.VERIF, 'replays'))
        os.makedirs(rdir, exist_ok=True)
        for i, v in enumerate(violations):
            rp = os.path.join(rdir, '%s-%d.json' % (pid, i))
            json.dump(v, open(rp, 'w'), indent=1)
            print('VIOLATION property=%s replay=%s' % (pid, rp), flush=True)
            log('   ', v.get('summary', ''))
        cov['violations_detail'] = [v.get('summary', '') for v in violations]
        return core.EXIT_VIOLATION
    if inconclusive:
        cov['inconclusive'] = inconclusive
        for i in inconclusive:
            log('INCONCLUSIVE:', i)
        return core.EXIT_INCONCLUSIVE
    return core.EXIT_OK


def handle_failure(ctx, pid, r, violations, inconclusive, known_hits):
    """A harness failed under the solver: replay the assignment natively (dev
    and release) against the real crate before anything is reported."""
    plays = [p for p in r.get('playback', []) if p['kind'] != 'cover']
    fc = r.get('failed_checks', [])
    unwind = [c for c in fc if 'unwinding assertion' in c['description']]
    if unwind:
        # once an unwinding assertion fails every other verdict of the run is void
        inconclusive.append('%s: unwinding bound too small (%s)' % (r['harness'], unwind[0]['location']))
        return
    if not plays:
        inconclusive.append('%s: FAILED (%s) but no concrete playback was produced' % (r['harness'], '; '.join(c['description'] for c in fc[:3])))
        return
    reproduced = None
    tried = []
    for pb in plays:
        for prof in ('dev', 'release'):
            rr = core.native_replay(ctx, r['harness'], pb['hex'], prof)
            tried.append(dict(profile=prof, check=pb['description'], result=rr['result'], message=rr['message'][:300]))
            if rr['result'] in ('fail', 'crash'):
                reproduced = (pb, rr)
                break
        if reproduced:
            break
    if not reproduced:
        inconclusive.append('%s: solver counterexample(s) did not reproduce natively (%r): encoding or stub problem' % (r['harness'], tried[:4]))
        return
    pb, rr = reproduced
    violations.append(dict(property=pid, harness=r['harness'], values_hex=pb['hex'], values=pb.get('shown'),
                           failed_check=pb['description'], native=rr, kind='kani',
                           summary='%s: "%s" reproduced natively (%s): %s  input=%r' % (r['harness'], pb['description'], rr['profile'], rr['message'][:200], pb.get('shown'))))


def replay(path, seed):
    v = json.load(open(path))
    ctx = core.prepare(seed)
    if v.get('kind') == 'kani':
        ok = False
        for prof in ('dev', 'release'):
            rr = core.native_replay(ctx, v['harness'], v['values_hex'], prof)
            print('replay %s [%s]: %s %s' % (v['harness'], prof, rr['result'], rr['message']))
            ok = ok or rr['result'] in ('fail', 'crash')
        print('REPRODUCED' if ok else 'NOT REPRODUCED')
        return 1 if ok else 0
    if v.get('kind') == 'language':
        import tasks_d
        return tasks_d.replay(ctx, v)
    print('unknown replay kind')
    return 2


if __name__ == '__main__':
    sys.exit(main())
