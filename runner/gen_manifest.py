#!/usr/bin/env python3
"""Regenerate /verif/MANIFEST.json from runner/props.py (keeps it valid at all times)."""
import os, sys, json
sys.path.insert(0, os.path.dirname(os.path.abspath(__file__)))
import props, core

NA = props.NOT_APPLICABLE
checks = []
for pid in sorted(props.PROPS):
    sp = props.PROPS[pid]
    checks.append(dict(
        property_id=pid,
        quick_cmd='./check %s --tier quick' % pid,
        thorough_cmd='./check %s --tier thorough' % pid,
        evidence_file='/verif/evidence/%s.json' % pid,
        replay_cmd_template='./check --replay {path}',
        engine=sp.get('engine', 'K'),
        level_claimed=dict(category='model_checking', text=sp['level_text'], design_ref=sp.get('design_ref', 'DESIGN.md section 4, ' + pid)),
        level_note=sp['level_note'],
        technique=sp['technique'],
    ))
ids = [l for l in (json.loads(x)['id'] for x in open(os.path.join(core.VERIF, 'properties.jsonl')))]
na = [dict(property_id=i, reason=NA[i]) for i in ids if i not in props.PROPS]
missing = [i for i in ids if i not in props.PROPS and i not in NA]
assert not missing, missing
m = dict(
    version=1,
    setup_cmd='./setup.sh',
    hooks=dict(
        guard='iref_verif',
        enable='RUSTFLAGS="--cfg iref_verif" (set by the runner for every Kani / native / expansion build of the scratch copy of /repo)',
        baseline_off_cmd='cd /repo && cargo test --workspace --no-fail-fast --offline',
        source_commits=props.HOOK_COMMITS,
        add_only=False,
    ),
    engines=[
        dict(name='D', path='/verif/engine_d', serves_properties=['C01', 'C13'],
             kind_free_text='automata recovered from rustc -Zunpretty=expanded of the current tree -> SMT (z3, cvc5 cross-check): inductive language equivalence/inclusion against a reference DFA compiled from /verif\'s RFC ABNF copies, plus bounded witness queries'),
        dict(name='K', path='/verif/harness', serves_properties=sorted(props.PROPS),
             kind_free_text='Kani 0.68 / CBMC 6.11 bounded model checking of the compiled iref-core public API over symbolic byte strings; counterexamples replayed natively against the real crate'),
    ],
    checks=checks,
    not_applicable=na,
    notes='Every check rebuilds from /repo\'s current working tree via a content-hashed scratch copy under $VERIF_SCRATCH (default /var/tmp/iref-verif). Exit 2 = inconclusive (timeout, OOM, non-reproducing counterexample); never reported as success.',
)
json.dump(m, open(os.path.join(core.VERIF, 'MANIFEST.json'), 'w'), indent=1)
print('MANIFEST: %d checks, %d not applicable' % (len(checks), len(na)))
