#!/usr/bin/env python3
import os, sys, subprocess, concurrent.futures as cf
sys.path.insert(0, os.path.dirname(os.path.abspath(__file__)))
import core

def warm(ctx, slot, harness):
    env = dict(os.environ, CARGO_NET_OFFLINE='true', RUSTFLAGS=core.GUARD)
    p = subprocess.run(['cargo', 'kani', '-Z', 'stubbing', '--only-codegen', '--harness', harness, '--exact',
                        '--target-dir', os.path.join(core.SCRATCH, 'kt%d' % slot)], cwd=ctx.harness, env=env,
                       stdout=subprocess.PIPE, stderr=subprocess.STDOUT, text=True)
    return slot, p.returncode, p.stdout[-800:]

def main():
    try:
        ctx = core.prepare(0)
    except core.Inconclusive as e:
        print('setup: prepare failed:', e)
        return 1
    core.build_native(ctx, 'release')
    hs = core.scan_harnesses()
    if not hs:
        return 0
    name = hs[0]['name']
    with cf.ThreadPoolExecutor(max_workers=core.NSLOTS) as ex:
        for slot, rc, tail in ex.map(lambda s: warm(ctx, s, name), range(core.NSLOTS)):
            print('setup: kani slot %d warmed rc=%d' % (slot, rc))
            if rc != 0:
                print(tail)
                return 1
    return 0

if __name__ == '__main__':
    sys.exit(main())
