#!/bin/sh
# Offline set-up: prepare the scratch copy of /repo's current tree, build the
# native replay tool and warm the Kani build slots.  Checks do not depend on
# this having run (they rebuild what is missing); it only saves time.
cd "$(dirname "$0")"
exec python3-vt runner/setup.py
