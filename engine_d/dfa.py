"""Engine D core: automata recovered from the compiler's macro expansion of the
current tree, reference automata compiled from /verif's own RFC ABNF copies,
product exploration (untrusted candidate generator), UTF-8 composition and the
Rust table emitter.  The SMT side lives in smt.py."""
import re, os, sys, json

HERE = os.path.dirname(os.path.abspath(__file__))
sys.path.insert(0, HERE)
import abnf

# (family, Rust type name) -> (grammar file, entry production).  This table is
# /verif's statement of which RFC production each public type stands for; it
# deliberately does not read the `entry_point = ...` attributes in /repo.
ENTRIES = {
    ('uri', 'Uri'): ('rfc3986.abnf', 'URI'),
    ('uri', 'UriRef'): ('rfc3986.abnf', 'URI-reference'),
    ('uri', 'Scheme'): ('rfc3986.abnf', 'scheme'),
    ('uri', 'Authority'): ('rfc3986.abnf', 'authority'),
    ('uri', 'UserInfo'): ('rfc3986.abnf', 'userinfo'),
    ('uri', 'Host'): ('rfc3986.abnf', 'host'),
    ('uri', 'Port'): ('rfc3986.abnf', 'port'),
    ('uri', 'Path'): ('rfc3986.abnf', 'path'),
    ('uri', 'Segment'): ('rfc3986.abnf', 'segment'),
    ('uri', 'Query'): ('rfc3986.abnf', 'query'),
    ('uri', 'Fragment'): ('rfc3986.abnf', 'fragment'),
    ('iri', 'Iri'): ('rfc3987.abnf', 'IRI'),
    ('iri', 'IriRef'): ('rfc3987.abnf', 'IRI-reference'),
    ('iri', 'Authority'): ('rfc3987.abnf', 'iauthority'),
    ('iri', 'UserInfo'): ('rfc3987.abnf', 'iuserinfo'),
    ('iri', 'Host'): ('rfc3987.abnf', 'ihost'),
    ('iri', 'Path'): ('rfc3987.abnf', 'ipath'),
    ('iri', 'Segment'): ('rfc3987.abnf', 'isegment'),
    ('iri', 'Query'): ('rfc3987.abnf', 'iquery'),
    ('iri', 'Fragment'): ('rfc3987.abnf', 'ifragment'),
}
MAXSYM = {'uri': 255, 'iri': 0x10FFFF}


class DFA:
    """Partial DFA over integer symbols 0..maxsym; a missing transition
    rejects.  trans[q] is a sorted list of disjoint (lo, hi, target)."""

    def __init__(self, n, init, trans, final, maxsym):
        self.n, self.init, self.trans, self.final, self.maxsym = n, init, trans, final, maxsym

    def step(self, q, c):
        if q is None:
            return None
        for lo, hi, t in self.trans[q]:
            if lo <= c <= hi:
                return t
        return None

    def accepts(self, syms):
        q = self.init
        for c in syms:
            q = self.step(q, c)
            if q is None:
                return False
        return self.final[q]

    def to_json(self):
        return dict(n=self.n, init=self.init, trans=self.trans, final=self.final, maxsym=self.maxsym)

    @staticmethod
    def from_json(d):
        return DFA(d['n'], d['init'], [[tuple(x) for x in r] for r in d['trans']], d['final'], d['maxsym'])

    @staticmethod
    def from_proto(d, maxsym):
        st = d['states']
        keys = sorted(st.keys())
        idx = {k: i for i, k in enumerate(keys)}
        trans = [sorted((lo, hi, idx[t]) for lo, hi, t in st[k][0]) for k in keys]
        final = [bool(st[k][1]) for k in keys]
        return DFA(len(keys), idx[d['init']], trans, final, maxsym)

    def breakpoints(self):
        pts = {0}
        for r in self.trans:
            for lo, hi, _ in r:
                pts.add(lo)
                pts.add(hi + 1)
        return pts


# ---------------------------------------------------------------- extraction
def _tok(t):
    t = t.strip()
    if t.endswith('u8'):
        return int(t[:-2])
    m = re.fullmatch(r"'(.*)'", t)
    if not m:
        raise ValueError('unrecognised pattern token %r' % t)
    s = m.group(1)
    if s.startswith('\\u{'):
        return int(s[3:-1], 16)
    if s.startswith('\\'):
        return {"\\'": 39, '\\\\': 92, '\\n': 10, '\\t': 9, '\\r': 13, '\\0': 0, '\\"': 34}[s]
    if len(s) != 1:
        raise ValueError('unrecognised char literal %r' % t)
    return ord(s)


def _parse_pat(p):
    out = []
    for alt in p.split('|'):
        alt = alt.strip()
        if not alt:
            continue
        if '..=' in alt:
            a, b = alt.split('..=')
        else:
            a = b = alt
        out.append((_tok(a), _tok(b)))
    return out


def extract(expanded_src):
    """Recover every generated `validate` automaton from rustc's
    -Zunpretty=expanded output.  Returns {(family, Type): DFA}."""
    src = expanded_src
    res = {}
    for m in re.finditer(r'pub fn validate\(mut input: impl Iterator<Item = (\w+)>\)\s*->\s*bool\s*\{', src):
        start = m.end()
        depth = 1
        i = start
        while depth > 0:
            c = src[i]
            if c == '{':
                depth += 1
            elif c == '}':
                depth -= 1
            i += 1
        body = src[start:i]
        pre = src[:m.start()]
        name = re.findall(r'impl (\w+) \{', pre)[-1]
        fam = 'iri' if m.group(1) == 'char' else 'uri'
        im = re.search(r'let mut state = (\d+)u32;', body)
        if not im:
            raise ValueError('validate of %s: no initial state' % name)
        init = int(im.group(1))
        states = {}
        for sm in re.finditer(r'(\d+)u32 =>\s*match input.next\(\) \{(.*?)\n\s*\},', body, re.S):
            q = int(sm.group(1))
            arms = sm.group(2)
            trans = []
            final = None
            for am in re.finditer(r'(Some\((.*?)\)|None) =>\s*(break (true|false)|(\d+)u32),', arms, re.S):
                if am.group(1) == 'None':
                    final = am.group(4) == 'true'
                elif am.group(2).strip() == '_':
                    if am.group(4) != 'false':
                        raise ValueError('wildcard arm that does not reject in %s' % name)
                elif am.group(5) is None:
                    # explicit `Some(x) => break b`
                    raise ValueError('symbol arm that breaks in %s' % name)
                else:
                    tgt = int(am.group(5))
                    for lo, hi in _parse_pat(am.group(2).replace('\n', ' ')):
                        trans.append((lo, hi, tgt))
            if final is None:
                raise ValueError('state %d of %s has no None arm' % (q, name))
            states[q] = (trans, final)
        # sanity: every state mentioned is defined, the `_ => unreachable` arm aside
        for q, (tr, _) in states.items():
            for lo, hi, t in tr:
                if t not in states:
                    raise ValueError('dangling state %d in %s' % (t, name))
        if (fam, name) in res:
            raise ValueError('duplicate validate for %s %s' % (fam, name))
        res[(fam, name)] = DFA.from_proto(dict(init=init, states=states), MAXSYM[fam])
    return res


# ----------------------------------------------------------------- reference
_ref_cache = {}


def reference(fam, name):
    key = (fam, name)
    if key not in _ref_cache:
        fn, entry = ENTRIES[key]
        text = open(os.path.join(HERE, 'refspec', fn)).read()
        d = abnf.compile_entry(text, entry, MAXSYM[fam])
        _ref_cache[key] = DFA.from_proto(d, MAXSYM[fam])
    return _ref_cache[key]


# ------------------------------------------------------- product exploration
def symbol_reps(pts, maxsym):
    """One representative per interval between breakpoints.  For the IRI
    family the symbol domain is the Unicode scalar values: surrogates
    D800..DFFF are not symbols (a Rust `char` range pattern that spans the gap
    cannot match them), so they are never representatives."""
    pts = set(pts)
    if maxsym > 255:
        pts |= {0xD800, 0xE000}
    return sorted(p for p in pts if p <= maxsym and not (0xD800 <= p <= 0xDFFF))


def product(A, B, mode='equal'):
    """Explore the reachable product of A and B over representative symbols.
    mode 'equal': look for a pair with different acceptance; 'subset': A
    accepting and B not.  Returns (ok, witness_symbols_or_None, pairs)."""
    maxsym = min(A.maxsym, B.maxsym)
    pts = A.breakpoints() | B.breakpoints()
    reps = symbol_reps(pts, maxsym)
    start = (A.init, B.init)
    seen = {start: None}
    todo = [start]

    def fin(D, q):
        return q is not None and D.final[q]

    while todo:
        nxt = []
        for pq in todo:
            fa, fb = fin(A, pq[0]), fin(B, pq[1])
            bad = (fa != fb) if mode == 'equal' else (fa and not fb)
            if bad:
                s = []
                x = pq
                while seen[x] is not None:
                    x, c = seen[x]
                    s.append(c)
                return False, list(reversed(s)), set(seen)
            for c in reps:
                y = (A.step(pq[0], c), B.step(pq[1], c))
                if y not in seen:
                    seen[y] = (pq, c)
                    nxt.append(y)
        todo = nxt
    return True, None, set(seen)


def intersect_first_delim_colon(D):
    """D ∩ S where S = 'the first of : / ? # is :' (3 states)."""
    # S states: 0 = nothing seen, 1 = colon seen first (accepting sink), dead otherwise
    def sstep(s, c):
        if s == 1:
            return 1
        if c == 0x3A:
            return 1
        if c in (0x2F, 0x3F, 0x23):
            return None
        return 0
    pts = D.breakpoints() | {0x23, 0x24, 0x2F, 0x30, 0x3A, 0x3B, 0x3F, 0x40}
    if D.maxsym > 255:
        pts |= {0xD800, 0xE000}
    pts = sorted(p for p in pts if p <= D.maxsym)
    ids = {}
    order = []
    trans = []

    def get(x):
        if x not in ids:
            ids[x] = len(order)
            order.append(x)
            trans.append(None)
        return ids[x]
    get((D.init, 0))
    i = 0
    while i < len(order):
        q, s = order[i]
        row = []
        for k, lo in enumerate(pts):
            hi = (pts[k + 1] - 1) if k + 1 < len(pts) else D.maxsym
            if 0xD800 <= lo <= 0xDFFF:
                continue
            t = D.step(q, lo)
            s2 = sstep(s, lo)
            if t is None or s2 is None:
                continue
            j = get((t, s2))
            if row and row[-1][2] == j and row[-1][1] == lo - 1:
                row[-1] = (row[-1][0], hi, j)
            else:
                row.append((lo, hi, j))
        trans[i] = row
        i += 1
    final = [D.final[q] and s == 1 for q, s in order]
    return DFA(len(order), 0, trans, final, D.maxsym)


# ------------------------------------------------------------ UTF-8 compose
def _enc(c):
    return list(chr(c).encode('utf-8'))


def utf8_seqs(lo, hi):
    """Split the scalar range [lo,hi] into sequences of byte ranges (as the
    utf8-ranges crate does; Unicode Table 3-7 well-formedness by
    construction: surrogates removed, lengths split at 7F/7FF/FFFF)."""
    out = []

    def rec(lo, hi):
        if lo > hi:
            return
        if lo <= 0xDFFF and hi >= 0xD800:
            rec(lo, 0xD7FF)
            rec(0xE000, hi)
            return
        for b in (0x7F, 0x7FF, 0xFFFF):
            if lo <= b < hi:
                rec(lo, b)
                rec(b + 1, hi)
                return
        if hi <= 0x7F:
            out.append([(lo, hi)])
            return
        n = len(_enc(lo))
        for i in range(1, n):
            m = (1 << (6 * i)) - 1
            if (lo & ~m) != (hi & ~m):
                if (lo & m) != 0:
                    rec(lo, lo | m)
                    rec((lo | m) + 1, hi)
                    return
                if (hi & m) != m:
                    rec(lo, (hi & ~m) - 1)
                    rec(hi & ~m, hi)
                    return
        a = _enc(lo)
        b = _enc(hi)
        out.append(list(zip(a, b)))
    rec(lo, hi)
    return out


def compose_utf8(D):
    """Byte-level DFA accepting exactly the UTF-8 encodings of the strings the
    char-level DFA D accepts (and no ill-formed byte string).  Minimised."""
    trans = {}
    cnt = [0]

    def add(s, lo, hi, t):
        trans.setdefault(s, []).append((lo, hi, t))
    for q in range(D.n):
        for lo, hi, t in D.trans[q]:
            for seq in utf8_seqs(lo, hi):
                cur = ('q', q)
                for k, (a, b) in enumerate(seq):
                    if k == len(seq) - 1:
                        nxt = ('q', t)
                    else:
                        cnt[0] += 1
                        nxt = ('m', cnt[0])
                    add(cur, a, b, nxt)
                    cur = nxt
    init = frozenset([('q', D.init)])
    ids = {init: 0}
    order = [init]
    table = []
    i = 0
    while i < len(order):
        S = order[i]
        i += 1
        row = []
        for byte in range(256):
            T = set()
            for s in S:
                for lo, hi, t in trans.get(s, []):
                    if lo <= byte <= hi:
                        T.add(t)
            T = frozenset(T)
            if not T:
                row.append(-1)
                continue
            if T not in ids:
                ids[T] = len(order)
                order.append(T)
            row.append(ids[T])
        table.append(row)
    final = [any(s[0] == 'q' and D.final[s[1]] for s in S) for S in order]
    return minimise_table(table, final, 0)


def minimise_table(table, final, init):
    N = len(table)
    part = [1 if f else 0 for f in final]
    while True:
        sig = {}
        newp = []
        for s in range(N):
            key = (part[s], tuple(part[t] if t >= 0 else -1 for t in table[s]))
            if key not in sig:
                sig[key] = len(sig)
            newp.append(sig[key])
        done = len(sig) == len(set(part))
        part = newp
        if done:
            break
    # renumber so that init's class is whatever it is; build DFA with ranges
    k = len(set(part))
    rep = {}
    for s in range(N):
        rep.setdefault(part[s], s)
    trans = [None] * k
    fin = [None] * k
    for p_, s in rep.items():
        row = []
        for b, t in enumerate(table[s]):
            if t < 0:
                continue
            tt = part[t]
            if row and row[-1][2] == tt and row[-1][1] == b - 1:
                row[-1] = (row[-1][0], b, tt)
            else:
                row.append((b, b, tt))
        trans[p_] = row
        fin[p_] = final[s]
    return DFA(k, part[init], trans, fin, 255)


def byte_table(D):
    """256-column dense table with a dead state n; returns (table, final)."""
    assert D.maxsym == 255
    n = D.n
    table = []
    for q in range(n):
        row = [n] * 256
        for lo, hi, t in D.trans[q]:
            for b in range(lo, hi + 1):
                row[b] = t
        table.append(row)
    table.append([n] * 256)
    return table, list(D.final) + [False]


# ------------------------------------------------------------- Rust emitter
def minimise_byte_dfa(D):
    """Language-preserving minimisation (Moore) of a byte-level DFA: fewer
    states make every table lookup cheaper for the SAT encoding.  The twins are
    compared with the real constructors natively on every run."""
    table, fin = byte_table(D)
    t2 = [[(x if x < D.n else -1) for x in row] for row in table[:D.n]]
    # drop unreachable states first
    seen = {D.init}
    todo = [D.init]
    while todo:
        q = todo.pop()
        for x in t2[q]:
            if x >= 0 and x not in seen:
                seen.add(x)
                todo.append(x)
    order = sorted(seen)
    idx = {q: i for i, q in enumerate(order)}
    t3 = [[(idx[x] if x >= 0 else -1) for x in t2[q]] for q in order]
    f3 = [fin[q] for q in order]
    return minimise_table(t3, f3, idx[D.init])


def emit_rust(D, ident):
    """Table-walk twin of a byte-level DFA: T[state*NCLS + CLS[byte]]."""
    D = minimise_byte_dfa(D)
    table, fin = byte_table(D)
    n = D.n
    cols = [tuple(table[q][b] for q in range(n)) for b in range(256)]
    classes = {}
    cls = []
    for c in cols:
        if c not in classes:
            classes[c] = len(classes)
        cls.append(classes[c])
    nc = len(classes)
    reps = [None] * nc
    for col, c in classes.items():
        reps[c] = col
    flat = []
    for q in range(n):
        for c in range(nc):
            flat.append(reps[c][q])
    for c in range(nc):
        flat.append(n)
    U = ident.upper()
    L = ident.lower()
    ty = 'u8' if n + 1 <= 256 else 'u16'
    return f"""pub const {U}_NCLS: usize = {nc};
pub const {U}_NSTATES: usize = {n + 1};
pub static {U}_CLS: [u8; 256] = {cls};
pub static {U}_T: [{ty}; {(n + 1) * nc}] = {flat};
pub static {U}_F: [u8; {n + 1}] = {[1 if f else 0 for f in fin]};
#[inline(never)]
pub fn {L}_valid(b: &[u8]) -> bool {{
    let mut s: usize = {D.init};
    let mut i = 0;
    while i < b.len() {{
        s = {U}_T[s * {U}_NCLS + {U}_CLS[b[i] as usize] as usize] as usize;
        i += 1;
    }}
    {U}_F[s] == 1
}}
/// The same walk with a loop of exactly `k` iterations (`k` is a constant at
/// every call site): under CBMC a loop over a symbolic length is unrolled to the
/// harness-wide unwind bound, and every unrolled step pays for a table lookup.
#[inline(never)]
pub fn {L}_valid_k(b: &[u8], k: usize) -> bool {{
    assert!(b.len() <= k, "valid_k: text longer than the stated bound");
    let mut s: usize = {D.init};
    let mut i = 0;
    while i < k {{
        if i < b.len() {{
            s = {U}_T[s * {U}_NCLS + {U}_CLS[b[i] as usize] as usize] as usize;
        }}
        i += 1;
    }}
    {U}_F[s] == 1
}}
pub const {U}_INIT: usize = {D.init};
/// Continue the walk from state `s` over `b` (for texts given as several pieces).
#[inline(never)]
pub fn {L}_run(mut s: usize, b: &[u8]) -> usize {{
    let mut i = 0;
    while i < b.len() {{
        s = {U}_T[s * {U}_NCLS + {U}_CLS[b[i] as usize] as usize] as usize;
        i += 1;
    }}
    s
}}
pub fn {L}_final(s: usize) -> bool {{
    {U}_F[s] == 1
}}
/// The concatenation of `pieces` is accepted.
pub fn {L}_valid_concat(pieces: &[&[u8]]) -> bool {{
    let mut s = {U}_INIT;
    let mut i = 0;
    while i < pieces.len() {{
        s = {L}_run(s, pieces[i]);
        i += 1;
    }}
    {U}_F[s] == 1
}}
/// Same walk over an iterator: a drop-in for the generated `validate` of a
/// byte-based type (used with #[kani::stub]).
pub fn {L}_validate_iter(mut input: impl Iterator<Item = u8>) -> bool {{
    let mut s: usize = {D.init};
    loop {{
        match input.next() {{
            Some(b) => s = {U}_T[s * {U}_NCLS + {U}_CLS[b as usize] as usize] as usize,
            None => break,
        }}
    }}
    {U}_F[s] == 1
}}
"""


def table_ident(fam, name):
    return ('T_%s_%s' % (fam, name)).upper()


def emit_all(dfas):
    """Rust source with a byte-level table twin for each of the 20 types
    (IRI family: composed with UTF-8).  Returns (source, info)."""
    out = ['// GENERATED by engine_d from the macro expansion of the current tree. Do not edit.',
           '#![allow(dead_code, non_upper_case_globals, clippy::all)]']
    info = {}
    for (fam, name) in sorted(dfas):
        D = dfas[(fam, name)]
        B = D if fam == 'uri' else compose_utf8(D)
        ident = table_ident(fam, name)
        out.append(emit_rust(B, ident))
        info['%s::%s' % (fam, name)] = dict(char_states=D.n, byte_states=B.n)
    # well-formed UTF-8 (Unicode Table 3-7) acceptor, by the same composition
    anyc = DFA(1, 0, [[(0, 0x10FFFF, 0)]], [True], 0x10FFFF)
    out.append(emit_rust(compose_utf8(anyc), 'T_UTF8'))
    return '\n'.join(out), info


def save(dfas, path):
    json.dump({'%s::%s' % k: v.to_json() for k, v in dfas.items()}, open(path, 'w'))


def load(path):
    d = json.load(open(path))
    return {tuple(k.split('::')): DFA.from_json(v) for k, v in d.items()}


if __name__ == '__main__':
    cmd = sys.argv[1]
    if cmd == 'extract':  # extract <expanded.rs> <dfas.json> <tables.rs>
        dfas = extract(open(sys.argv[2]).read())
        missing = [k for k in ENTRIES if k not in dfas]
        if missing:
            print('extraction incomplete, missing %r' % missing, file=sys.stderr)
            sys.exit(2)
        save(dfas, sys.argv[3])
        src, info = emit_all(dfas)
        open(sys.argv[4], 'w').write(src)
        print(json.dumps(info))
    elif cmd == 'equiv':  # equiv <dfas.json>
        dfas = load(sys.argv[2])
        for k in sorted(ENTRIES):
            ok, w, pairs = product(dfas[k], reference(*k))
            print(k, dfas[k].n, reference(*k).n, 'equal' if ok else 'DIFF %r' % (w,), len(pairs))
