import re, sys
# ---------- ABNF parser (RFC 5234 subset sufficient for RFC 3986/3987) ----------
def strip_comments(text):
    out=[]
    for line in text.splitlines():
        res='';inq=False
        for ch in line:
            if ch=='"': inq=not inq
            if ch==';' and not inq: break
            res+=ch
        out.append(res.rstrip())
    return out
def rules_text(text):
    rules={}; cur=None
    for line in strip_comments(text):
        if not line.strip(): continue
        m=re.match(r'^([A-Za-z][A-Za-z0-9-]*)\s*=\s*(.*)$',line)
        if m and not line[0].isspace():
            cur=m.group(1).lower(); rules[cur]=m.group(2)
        else:
            rules[cur]+=' '+line.strip()
    return rules
TOK=re.compile(r'\s*(?:(?P<str>"[^"]*")|(?P<num>%[xdb][0-9A-Fa-f]+(?:-[0-9A-Fa-f]+|(?:\.[0-9A-Fa-f]+)+)?)|(?P<prose><[^>]*>)|(?P<rep>\d*\*\d*|\d+)|(?P<name>[A-Za-z][A-Za-z0-9-]*)|(?P<op>[/()\[\]]))')
def tokenize(s):
    pos=0;out=[]
    while pos<len(s):
        if s[pos:].strip()=='' : break
        m=TOK.match(s,pos)
        assert m,(s,pos)
        pos=m.end()
        k=m.lastgroup; out.append((k,m.group(k)))
    return out
# AST: ('alt',[..]) ('cat',[..]) ('rep',lo,hi,x) ('set',[(lo,hi)..]) ('ref',name) ('eps',)
def parse_rule(s):
    toks=tokenize(s); i=[0]
    def peek(): return toks[i[0]] if i[0]<len(toks) else (None,None)
    def alt():
        items=[cat()]
        while peek()==('op','/'):
            i[0]+=1; items.append(cat())
        return ('alt',items) if len(items)>1 else items[0]
    def cat():
        items=[]
        while True:
            k,v=peek()
            if k is None or (k=='op' and v in '/)]'): break
            items.append(rep())
        return ('cat',items) if len(items)!=1 else items[0]
    def rep():
        k,v=peek(); lo,hi=1,1
        if k=='rep':
            i[0]+=1
            if '*' in v:
                a,b=v.split('*'); lo=int(a) if a else 0; hi=int(b) if b else None
            else: lo=hi=int(v)
        e=elem()
        return e if (lo,hi)==(1,1) else ('rep',lo,hi,e)
    def elem():
        k,v=peek(); i[0]+=1
        if k=='op' and v=='(':
            e=alt(); assert peek()==('op',')'); i[0]+=1; return e
        if k=='op' and v=='[':
            e=alt(); assert peek()==('op',']'); i[0]+=1; return ('rep',0,1,e)
        if k=='str':
            s=v[1:-1]; items=[]
            for ch in s:
                if ch.isalpha(): items.append(('set',[(ord(ch.lower()),ord(ch.lower())),(ord(ch.upper()),ord(ch.upper()))]))
                else: items.append(('set',[(ord(ch),ord(ch))]))
            return ('cat',items) if len(items)!=1 else items[0]
        if k=='num':
            base={'x':16,'d':10,'b':2}[v[1]]; body=v[2:]
            if '-' in body:
                a,b=body.split('-'); return ('set',[(int(a,base),int(b,base))])
            parts=[int(p,base) for p in body.split('.')]
            items=[('set',[(p,p)]) for p in parts]
            return ('cat',items) if len(items)!=1 else items[0]
        if k=='prose': return ('prose',v)
        if k=='name': return ('ref',v.lower())
        raise Exception((k,v))
    r=alt(); assert i[0]==len(toks),(s,toks[i[0]:])
    return r
CORE={'alpha':('set',[(0x41,0x5A),(0x61,0x7A)]),'digit':('set',[(0x30,0x39)]),
      'hexdig':('set',[(0x30,0x39),(0x41,0x46),(0x61,0x66)])}
# ---------- NFA (Thompson) ----------
class NFA:
    def __init__(s): s.eps={}; s.tr={}; s.n=0
    def new(s): s.n+=1; return s.n-1
def build(rules,entry):
    nfa=NFA()
    def go(ast):
        k=ast[0]
        a=nfa.new(); b=nfa.new()
        if k=='set': nfa.tr.setdefault(a,[]).extend((lo,hi,b) for lo,hi in ast[1])
        elif k=='ref':
            name=ast[1]
            sub=CORE[name] if name in CORE else rules[name]
            x,y=go(sub); nfa.eps.setdefault(a,[]).append(x); nfa.eps.setdefault(y,[]).append(b)
        elif k=='alt':
            for it in ast[1]:
                x,y=go(it); nfa.eps.setdefault(a,[]).append(x); nfa.eps.setdefault(y,[]).append(b)
        elif k=='cat':
            cur=a
            for it in ast[1]:
                x,y=go(it); nfa.eps.setdefault(cur,[]).append(x); cur=y
            nfa.eps.setdefault(cur,[]).append(b)
        elif k=='rep':
            _,lo,hi,e=ast; cur=a
            for _i in range(lo):
                x,y=go(e); nfa.eps.setdefault(cur,[]).append(x); cur=y
            if hi is None:
                x,y=go(e); nfa.eps.setdefault(cur,[]).append(x); nfa.eps.setdefault(y,[]).append(cur)
                nfa.eps.setdefault(cur,[]).append(b)
            else:
                for _i in range(hi-lo):
                    nfa.eps.setdefault(cur,[]).append(b)
                    x,y=go(e); nfa.eps.setdefault(cur,[]).append(x); cur=y
                nfa.eps.setdefault(cur,[]).append(b)
        elif k=='prose':
            raise Exception('prose outside 0-repetition')
        else: raise Exception(k)
        return a,b
    # special-case 0<prose>
    def fix(ast):
        if ast[0]=='rep' and ast[3][0]=='prose':
            assert ast[1]==0 and ast[2]==0; return ('cat',[])
        if ast[0] in('alt','cat'): return (ast[0],[fix(x) for x in ast[1]])
        if ast[0]=='rep': return ('rep',ast[1],ast[2],fix(ast[3]))
        return ast
    for k in list(rules): rules[k]=fix(rules[k])
    s,f=go(('ref',entry.lower()))
    return nfa,s,f
def determinize(nfa,s,f,maxsym):
    pts=set([0,maxsym+1])
    for q,l in nfa.tr.items():
        for lo,hi,t in l: pts.add(lo); pts.add(hi+1)
    pts=sorted(pts); ivs=[(pts[i],pts[i+1]-1) for i in range(len(pts)-1)]
    def clo(S):
        st=list(S); seen=set(S)
        while st:
            q=st.pop()
            for t in nfa.eps.get(q,[]):
                if t not in seen: seen.add(t); st.append(t)
        return frozenset(seen)
    init=clo([s]); ids={init:0}; order=[init]; table=[]
    i=0
    while i<len(order):
        S=order[i]; i+=1; row=[]
        for lo,hi in ivs:
            T=set()
            for q in S:
                for a,b,t in nfa.tr.get(q,[]):
                    if a<=lo<=b: T.add(t)
            if not T: row.append(-1); continue
            T=clo(T)
            if T not in ids: ids[T]=len(order); order.append(T)
            row.append(ids[T])
        table.append(row)
    final=[f in S for S in order]
    # minimize (Moore)
    N=len(order); part=[1 if x else 0 for x in final]
    while True:
        sig={}; newp=[]
        for q in range(N):
            key=(part[q],tuple(part[t] if t>=0 else -1 for t in table[q]))
            if key not in sig: sig[key]=len(sig)
            newp.append(sig[key])
        done=len(sig)==len(set(part)); part=newp
        if done: break
    k=len(set(part)); rep={}
    for q in range(N): rep.setdefault(part[q],q)
    states={}
    for p,q in rep.items():
        tr=[]
        for (lo,hi),t in zip(ivs,table[q]):
            if t>=0:
                if tr and tr[-1][2]==part[t] and tr[-1][1]==lo-1: tr[-1]=(tr[-1][0],hi,part[t])
                else: tr.append((lo,hi,part[t]))
        states[p]=(tr,final[q])
    return dict(init=part[0],states=states)
def compile_entry(text,entry,maxsym):
    rules={k:parse_rule(v) for k,v in rules_text(text).items()}
    nfa,s,f=build(rules,entry)
    return determinize(nfa,s,f,maxsym)
