"""Engine D, SMT side.  The transition functions of two automata are encoded as
bit-vector terms; the solver decides
  (1) an inductive certificate: a relation R on state pairs (candidate computed
      by product exploration, *untrusted*) contains (init,init), is closed under
      every symbol, and every pair in R agrees on acceptance (or A => B for
      inclusion).  unsat of the negation => the languages are equal / included
      for strings of EVERY length;
  (2) a bounded query: a symbolic string of length <= K is run through both
      automata; sat => a concrete distinguishing string.
z3 decides; cvc5 re-decides the same SMT-LIB text when asked (cross-check)."""
import time, subprocess, tempfile, os
import z3

SW = 16  # state width


def sym_width(maxsym):
    return 8 if maxsym <= 255 else 21


def _delta(D, p, c, w):
    dead = z3.BitVecVal(D.n, SW)
    e = dead
    for q in range(D.n):
        eq = dead
        for lo, hi, t in D.trans[q]:
            cond = (c == z3.BitVecVal(lo, w)) if lo == hi else z3.And(z3.ULE(z3.BitVecVal(lo, w), c), z3.ULE(c, z3.BitVecVal(hi, w)))
            eq = z3.If(cond, z3.BitVecVal(t, SW), eq)
        e = z3.If(p == z3.BitVecVal(q, SW), eq, e)
    return e


def _fin(D, p):
    fs = [p == z3.BitVecVal(q, SW) for q in range(D.n) if D.final[q]]
    return z3.Or(fs) if fs else z3.BoolVal(False)


def _domain(c, maxsym, w):
    if maxsym <= 255:
        return z3.BoolVal(True) if w == 8 else z3.ULE(c, z3.BitVecVal(255, w))
    return z3.And(z3.ULE(c, z3.BitVecVal(0x10FFFF, w)),
                  z3.Or(z3.ULT(c, z3.BitVecVal(0xD800, w)), z3.UGT(c, z3.BitVecVal(0xDFFF, w))))


def _pairs_to_bv(R, A, B):
    # None (dead) is state index n
    return [((A.n if p is None else p), (B.n if q is None else q)) for p, q in R]


def _check(solver, cross, label, stats):
    t = time.time()
    r = solver.check()
    dt = time.time() - t
    res = str(r)
    rec = dict(query=label, solver='z3 ' + z3.get_version_string(), result=res, time_s=round(dt, 3))
    stats.append(rec)
    if cross:
        smt2 = '(set-logic ALL)\n' + solver.to_smt2()
        with tempfile.NamedTemporaryFile('w', suffix='.smt2', delete=False) as f:
            f.write(smt2)
            path = f.name
        try:
            t = time.time()
            out = subprocess.run(['cvc5', '--lang', 'smt2', path], capture_output=True, text=True, timeout=1800)
            dt2 = time.time() - t
            lines = [l.strip() for l in out.stdout.splitlines() if l.strip()]
            r2 = 'error' if any(l.startswith('(error') for l in lines) or not lines else lines[0]
            stats.append(dict(query=label, solver='cvc5', result=r2, time_s=round(dt2, 3)))
            if r2 != res:
                rec['cross_disagree'] = r2
        finally:
            os.unlink(path)
    return r


def inductive(A, B, R, mode, label, stats, cross=False):
    """Returns 'unsat' (certificate holds), 'sat' (R is not a certificate) or
    'unknown'."""
    maxsym = min(A.maxsym, B.maxsym)
    w = sym_width(max(A.maxsym, B.maxsym))
    p, q = z3.BitVec('p', SW), z3.BitVec('q', SW)
    c = z3.BitVec('c', w)
    pairs = _pairs_to_bv(R, A, B)
    rel = z3.Function('R', z3.BitVecSort(SW), z3.BitVecSort(SW), z3.BoolSort())

    def inR(a, b):
        return z3.Or([z3.And(a == z3.BitVecVal(x, SW), b == z3.BitVecVal(y, SW)) for x, y in pairs])
    s = z3.Solver()
    s.add(_domain(c, maxsym, w))
    # obligation 0: (init, init) in R -- checked syntactically AND by the solver below
    init_ok = inR(z3.BitVecVal(A.init, SW), z3.BitVecVal(B.init, SW))
    fa, fb = _fin(A, p), _fin(B, q)
    bad_accept = (fa != fb) if mode == 'equal' else z3.And(fa, z3.Not(fb))
    np_, nq = _delta(A, p, c, w), _delta(B, q, c, w)
    s.add(z3.Or(z3.Not(init_ok), z3.And(inR(p, q), z3.Or(bad_accept, z3.Not(inR(np_, nq))))))
    return str(_check(s, cross, label, stats))


def bounded(A, B, K, mode, label, stats, cross=False):
    """Symbolic string of length <= K through both automata.  Returns
    (result, witness symbols or None)."""
    maxsym = min(A.maxsym, B.maxsym)
    w = sym_width(max(A.maxsym, B.maxsym))
    s = z3.Solver()
    cs = [z3.BitVec('c%d' % i, w) for i in range(K)]
    ln = z3.BitVec('len', 8)
    s.add(z3.ULE(ln, z3.BitVecVal(K, 8)))
    p = z3.BitVecVal(A.init, SW)
    q = z3.BitVecVal(B.init, SW)
    bads = []
    for i in range(K + 1):
        fa, fb = _fin(A, p), _fin(B, q)
        bad = (fa != fb) if mode == 'equal' else z3.And(fa, z3.Not(fb))
        bads.append(z3.And(ln == z3.BitVecVal(i, 8), bad))
        if i < K:
            s.add(_domain(cs[i], maxsym, w))
            pi = z3.BitVec('p%d' % (i + 1), SW)
            qi = z3.BitVec('q%d' % (i + 1), SW)
            s.add(pi == _delta(A, p, cs[i], w))
            s.add(qi == _delta(B, q, cs[i], w))
            p, q = pi, qi
    s.add(z3.Or(bads))
    r = _check(s, cross, label, stats)
    if r == z3.sat:
        m = s.model()
        n = m.eval(ln, model_completion=True).as_long()
        return 'sat', [m.eval(cs[i], model_completion=True).as_long() for i in range(n)]
    return str(r), None


def accepting_sample(A, K, label, stats):
    """A solver-produced accepted string of length exactly K (or None)."""
    w = sym_width(A.maxsym)
    s = z3.Solver()
    cs = [z3.BitVec('c%d' % i, w) for i in range(K)]
    p = z3.BitVecVal(A.init, SW)
    for i in range(K):
        s.add(_domain(cs[i], A.maxsym, w))
        pi = z3.BitVec('p%d' % (i + 1), SW)
        s.add(pi == _delta(A, p, cs[i], w))
        p = pi
    s.add(_fin(A, p))
    r = _check(s, False, label, stats)
    if r == z3.sat:
        m = s.model()
        return [m.eval(c, model_completion=True).as_long() for c in cs]
    return None


def no_symbol_above(A, limit, label, stats):
    """unsat <=> no state of A has a live transition on a symbol > limit."""
    w = sym_width(A.maxsym)
    p = z3.BitVec('p', SW)
    c = z3.BitVec('c', w)
    s = z3.Solver()
    s.add(z3.ULT(p, z3.BitVecVal(A.n, SW)), z3.UGT(c, z3.BitVecVal(limit, w)), _delta(A, p, c, w) != z3.BitVecVal(A.n, SW))
    return str(_check(s, False, label, stats))
