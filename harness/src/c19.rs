//! C19 — percent-decoded views of components are total and faithful.
use crate::oracle::pct_decode;
use crate::sym::{as_str, assume, bytes_eq, Text};
use crate::{cover, kf, tables};
use iref_core::{iri, uri};

macro_rules! octets_body {
    ($fname:ident, $T:ty, $mk:expr) => {
        /// `as_pct_str().bytes()` yields exactly the component's bytes with
        /// each %XX replaced by that octet (no UTF-8 involved).
        fn $fname<const N: usize>() {
            let t = Text::<N>::any();
            let b = t.bytes();
            let x: &$T = match $mk(b) {
                Some(x) => x,
                None => return,
            };
            let (want, n) = pct_decode(b);
            let p = x.as_pct_str();
            assert!(p.as_bytes().as_ptr() == b.as_ptr() && p.as_bytes().len() == b.len(), "as_pct_str is not a view of the component");
            let mut it = p.bytes();
            let mut i = 0;
            while i < n {
                match it.next() {
                    Some(o) => assert!(o == want[i], "decoded octet differs from the %XX value / literal byte"),
                    None => panic!("octet iterator ended early"),
                }
                i += 1;
            }
            assert!(it.next().is_none(), "octet iterator yields more than the decoded octets");
            cover!(n + 4 <= b.len(), "two escapes");
            cover!(n >= 1 && want[0] == 0xFF, "decodes to octet FF");
        }
    };
}

fn mk_uri_segment(b: &[u8]) -> Option<&uri::Segment> {
    uri::Segment::new(b).ok()
}
fn mk_uri_query(b: &[u8]) -> Option<&uri::Query> {
    uri::Query::new(b).ok()
}
fn mk_uri_fragment(b: &[u8]) -> Option<&uri::Fragment> {
    uri::Fragment::new(b).ok()
}
fn mk_uri_userinfo(b: &[u8]) -> Option<&uri::UserInfo> {
    uri::UserInfo::new(b).ok()
}
fn mk_uri_host(b: &[u8]) -> Option<&uri::Host> {
    if tables::t_uri_host_valid(b) {
        Some(unsafe { uri::Host::new_unchecked(b) })
    } else {
        None
    }
}
fn mk_iri_segment(b: &[u8]) -> Option<&iri::Segment> {
    if tables::t_iri_segment_valid(b) {
        Some(unsafe { iri::Segment::new_unchecked(as_str(b)) })
    } else {
        None
    }
}
fn mk_iri_query(b: &[u8]) -> Option<&iri::Query> {
    if tables::t_iri_query_valid(b) {
        Some(unsafe { iri::Query::new_unchecked(as_str(b)) })
    } else {
        None
    }
}
fn mk_iri_fragment(b: &[u8]) -> Option<&iri::Fragment> {
    if tables::t_iri_fragment_valid(b) {
        Some(unsafe { iri::Fragment::new_unchecked(as_str(b)) })
    } else {
        None
    }
}
fn mk_iri_userinfo(b: &[u8]) -> Option<&iri::UserInfo> {
    if tables::t_iri_userinfo_valid(b) {
        Some(unsafe { iri::UserInfo::new_unchecked(as_str(b)) })
    } else {
        None
    }
}
fn mk_iri_host(b: &[u8]) -> Option<&iri::Host> {
    if tables::t_iri_host_valid(b) {
        Some(unsafe { iri::Host::new_unchecked(as_str(b)) })
    } else {
        None
    }
}

octets_body!(octets_uri_segment, uri::Segment, mk_uri_segment);
octets_body!(octets_uri_query, uri::Query, mk_uri_query);
octets_body!(octets_uri_fragment, uri::Fragment, mk_uri_fragment);
octets_body!(octets_uri_userinfo, uri::UserInfo, mk_uri_userinfo);
octets_body!(octets_uri_host, uri::Host, mk_uri_host);
octets_body!(octets_iri_segment, iri::Segment, mk_iri_segment);
octets_body!(octets_iri_query, iri::Query, mk_iri_query);
octets_body!(octets_iri_fragment, iri::Fragment, mk_iri_fragment);
octets_body!(octets_iri_userinfo, iri::UserInfo, mk_iri_userinfo);
octets_body!(octets_iri_host, iri::Host, mk_iri_host);

// @h prop=C19 tier=quick kind=check mem=4 bound="uri::Segment <= 8 bytes" encodes="SegmentImpl::as_pct_str;pct_str::PctStr::bytes (Bytes::next)"
#[cfg_attr(kani, kani::proof)]
#[cfg_attr(kani, kani::unwind(10))]
pub fn c19_octets_uri_segment_n8() {
    octets_uri_segment::<8>()
}

// @h prop=C19 tier=quick kind=check mem=4 bound="uri::Query <= 8 bytes" encodes="uri::Query::as_pct_str;PctStr::bytes"
#[cfg_attr(kani, kani::proof)]
#[cfg_attr(kani, kani::unwind(10))]
pub fn c19_octets_uri_query_n8() {
    octets_uri_query::<8>()
}

// @h prop=C19 tier=quick kind=check mem=4 bound="uri::Fragment <= 8 bytes" encodes="uri::Fragment::as_pct_str;PctStr::bytes"
#[cfg_attr(kani, kani::proof)]
#[cfg_attr(kani, kani::unwind(10))]
pub fn c19_octets_uri_fragment_n8() {
    octets_uri_fragment::<8>()
}

// @h prop=C19 tier=quick kind=check mem=4 bound="uri::UserInfo <= 8 bytes" encodes="uri::UserInfo::as_pct_str;PctStr::bytes"
#[cfg_attr(kani, kani::proof)]
#[cfg_attr(kani, kani::unwind(10))]
pub fn c19_octets_uri_userinfo_n8() {
    octets_uri_userinfo::<8>()
}

// @h prop=C19 tier=quick kind=check mem=4 bound="uri::Host <= 8 bytes (incl. IP literals)" encodes="uri::Host::as_pct_str;PctStr::bytes"
#[cfg_attr(kani, kani::proof)]
#[cfg_attr(kani, kani::unwind(10))]
pub fn c19_octets_uri_host_n8() {
    octets_uri_host::<8>()
}

// @h prop=C19 tier=quick kind=check mem=4 bound="iri::Segment <= 7 bytes (UTF-8 literal text mixed with escapes)" encodes="iri::Segment::as_pct_str;PctStr::bytes"
#[cfg_attr(kani, kani::proof)]
#[cfg_attr(kani, kani::unwind(9))]
pub fn c19_octets_iri_segment_n7() {
    octets_iri_segment::<7>()
}

// @h prop=C19 tier=quick kind=check mem=4 bound="iri::Query <= 7 bytes" encodes="iri::Query::as_pct_str;PctStr::bytes"
#[cfg_attr(kani, kani::proof)]
#[cfg_attr(kani, kani::unwind(9))]
pub fn c19_octets_iri_query_n7() {
    octets_iri_query::<7>()
}

// @h prop=C19 tier=quick kind=check mem=4 bound="iri::Fragment <= 7 bytes" encodes="iri::Fragment::as_pct_str;PctStr::bytes"
#[cfg_attr(kani, kani::proof)]
#[cfg_attr(kani, kani::unwind(9))]
pub fn c19_octets_iri_fragment_n7() {
    octets_iri_fragment::<7>()
}

// @h prop=C19 tier=quick kind=check mem=4 bound="iri::UserInfo <= 7 bytes" encodes="iri::UserInfo::as_pct_str;PctStr::bytes"
#[cfg_attr(kani, kani::proof)]
#[cfg_attr(kani, kani::unwind(9))]
pub fn c19_octets_iri_userinfo_n7() {
    octets_iri_userinfo::<7>()
}

// @h prop=C19 tier=quick kind=check mem=4 bound="iri::Host <= 7 bytes" encodes="iri::Host::as_pct_str;PctStr::bytes"
#[cfg_attr(kani, kani::proof)]
#[cfg_attr(kani, kani::unwind(9))]
pub fn c19_octets_iri_host_n7() {
    octets_iri_host::<7>()
}

macro_rules! chars_body {
    ($fname:ident, $T:ty, $mk:expr) => {
        /// chars()/len()/== str: total, and the UTF-8 text of the decoded
        /// octets whenever those are well-formed; never equal to a plain text
        /// when the octets are ill-formed or overlong.
        fn $fname<const N: usize, const M: usize>() {
            let t = Text::<N>::any();
            let b = t.bytes();
            let x: &$T = match $mk(b) {
                Some(x) => x,
                None => return,
            };
            #[cfg(kf_pct_illformed)]
            assume(!kf::pct_illformed(b));
            let (want, n) = pct_decode(b);
            let wf = tables::t_utf8_valid(&want[..n]);
            let p = x.as_pct_str();
            // comparing with plain text (terminates without panicking for every value)
            let o = Text::<M>::any();
            let s = o.bytes();
            assume(tables::t_utf8_valid(s));
            let eq = *p == *as_str(s);
            if wf {
                assert!(eq == bytes_eq(&want[..n], s), "pct == str differs from equality of the decoded text");
            } else {
                assert!(!eq, "ill-formed or overlong decoded octets compare equal to well-formed text");
            }
            // chars() and len()
            let cnt = p.len();
            if wf {
                let mut a = p.chars();
                let mut e = as_str(&want[..n]).chars();
                let mut k = 0;
                loop {
                    match (a.next(), e.next()) {
                        (None, None) => break,
                        (Some(x), Some(y)) => assert!(x == y, "chars() differs from the UTF-8 text of the decoded octets"),
                        _ => panic!("chars() has a different length than the decoded text"),
                    }
                    k += 1;
                }
                assert!(cnt == k, "len() is not the number of decoded characters");
            }
            cover!(wf && (N < 6 || (n + 4 <= b.len() && want[0] >= 0xC2)), "well-formed (at N >= 6: a multi-byte scalar split over two escapes)");
            cover!(wf && eq && n >= 1, "equal to a plain text");
            #[cfg(not(kf_pct_illformed))]
            cover!(!wf, "ill-formed decoded octets");
        }
    };
}

chars_body!(chars_uri_segment, uri::Segment, mk_uri_segment);
chars_body!(chars_iri_segment, iri::Segment, mk_iri_segment);
chars_body!(chars_uri_query, uri::Query, mk_uri_query);

// @h prop=C19 tier=thorough kind=check timeout=2400 mem=20 bound="uri::Segment <= 3 bytes (one escape) vs any UTF-8 text <= 1 byte" encodes="PctStr::{chars,len,eq<str>};pct_str::Chars::next;utf8_decode::Decoder"
#[cfg_attr(kani, kani::proof)]
#[cfg_attr(kani, kani::unwind(5))]
pub fn c19_chars_uri_segment_n3() {
    chars_uri_segment::<3, 1>()
}

// @h prop=C19 tier=thorough kind=check timeout=2400 mem=30 bound="uri::Segment <= 4 bytes (one escape + one byte) vs any UTF-8 text <= 2 bytes" encodes="PctStr::{chars,len,eq<str>};pct_str::Chars::next;utf8_decode::Decoder"
#[cfg_attr(kani, kani::proof)]
#[cfg_attr(kani, kani::unwind(6))]
pub fn c19_chars_uri_segment_n4() {
    chars_uri_segment::<4, 2>()
}

// @h prop=C19 tier=thorough kind=check timeout=2400 mem=20 bound="uri::Segment <= 6 bytes (two escapes) vs any UTF-8 text <= 2 bytes" encodes="PctStr::{chars,len,eq<str>};pct_str::Chars::next;utf8_decode::Decoder"
#[cfg_attr(kani, kani::proof)]
#[cfg_attr(kani, kani::unwind(8))]
pub fn c19_chars_uri_segment_n6() {
    chars_uri_segment::<6, 2>()
}

// @h prop=C19 tier=thorough kind=check timeout=2400 mem=20 bound="iri::Segment <= 5 bytes vs any UTF-8 text <= 2 bytes" encodes="same through iri::Segment (literal non-ASCII mixed with escapes)"
#[cfg_attr(kani, kani::proof)]
#[cfg_attr(kani, kani::unwind(7))]
pub fn c19_chars_iri_segment_n5() {
    chars_iri_segment::<5, 2>()
}

// @h prop=C19 tier=thorough kind=check timeout=2400 mem=20 bound="uri::Query <= 6 bytes vs any UTF-8 text <= 2 bytes" encodes="same through uri::Query"
#[cfg_attr(kani, kani::proof)]
#[cfg_attr(kani, kani::unwind(8))]
pub fn c19_chars_uri_query_n6() {
    chars_uri_query::<6, 2>()
}
