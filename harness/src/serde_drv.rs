//! A minimal serde front end: hands the visitor an arbitrary str / bytes /
//! String / Vec<u8> (each borrowed or transient), and a serializer that
//! records what it is given.  No formatting, no allocation of its own.
use serde::de::{self, Deserializer, Visitor};
use serde::ser::{self, Serializer};
use std::fmt;

#[derive(Debug)]
pub struct E;
impl fmt::Display for E {
    fn fmt(&self, _f: &mut fmt::Formatter) -> fmt::Result {
        Ok(())
    }
}
impl std::error::Error for E {}
impl de::Error for E {
    fn custom<T: fmt::Display>(_msg: T) -> Self {
        E
    }
    fn invalid_value(_unexp: de::Unexpected, _exp: &dyn de::Expected) -> Self {
        E
    }
    fn invalid_type(_unexp: de::Unexpected, _exp: &dyn de::Expected) -> Self {
        E
    }
}
impl ser::Error for E {
    fn custom<T: fmt::Display>(_msg: T) -> Self {
        E
    }
}

#[derive(Clone, Copy, PartialEq, Eq)]
pub enum Mode {
    BorrowedStr,
    Str,
    String,
    BorrowedBytes,
    Bytes,
    ByteBuf,
}

pub struct Feed<'de> {
    pub mode: Mode,
    pub bytes: &'de [u8],
}

impl<'de> Deserializer<'de> for Feed<'de> {
    type Error = E;
    fn deserialize_any<V: Visitor<'de>>(self, visitor: V) -> Result<V::Value, E> {
        match self.mode {
            Mode::BorrowedStr => visitor.visit_borrowed_str(crate::sym::as_str(self.bytes)),
            Mode::Str => visitor.visit_str(crate::sym::as_str(self.bytes)),
            Mode::String => visitor.visit_string(unsafe { String::from_utf8_unchecked(crate::sym::vec_of(self.bytes)) }),
            Mode::BorrowedBytes => visitor.visit_borrowed_bytes(self.bytes),
            Mode::Bytes => visitor.visit_bytes(self.bytes),
            Mode::ByteBuf => visitor.visit_byte_buf(crate::sym::vec_of(self.bytes)),
        }
    }
    serde::forward_to_deserialize_any! {
        bool i8 i16 i32 i64 i128 u8 u16 u32 u64 u128 f32 f64 char str string
        bytes byte_buf option unit unit_struct newtype_struct seq tuple
        tuple_struct map struct enum identifier ignored_any
    }
}

/// Records the single `serialize_str` call the library is expected to make.
pub struct Rec<'a> {
    pub out: &'a mut [u8],
    pub len: &'a mut usize,
}

impl<'a> Serializer for Rec<'a> {
    type Ok = ();
    type Error = E;
    type SerializeSeq = ser::Impossible<(), E>;
    type SerializeTuple = ser::Impossible<(), E>;
    type SerializeTupleStruct = ser::Impossible<(), E>;
    type SerializeTupleVariant = ser::Impossible<(), E>;
    type SerializeMap = ser::Impossible<(), E>;
    type SerializeStruct = ser::Impossible<(), E>;
    type SerializeStructVariant = ser::Impossible<(), E>;
    fn serialize_str(self, v: &str) -> Result<(), E> {
        let b = v.as_bytes();
        if b.len() > self.out.len() {
            return Err(E);
        }
        let mut i = 0;
        while i < b.len() {
            self.out[i] = b[i];
            i += 1;
        }
        *self.len = b.len();
        Ok(())
    }
    fn serialize_bytes(self, _v: &[u8]) -> Result<(), E> {
        Err(E)
    }
    fn serialize_bool(self, _v: bool) -> Result<(), E> {
        Err(E)
    }
    fn serialize_i8(self, _v: i8) -> Result<(), E> {
        Err(E)
    }
    fn serialize_i16(self, _v: i16) -> Result<(), E> {
        Err(E)
    }
    fn serialize_i32(self, _v: i32) -> Result<(), E> {
        Err(E)
    }
    fn serialize_i64(self, _v: i64) -> Result<(), E> {
        Err(E)
    }
    fn serialize_u8(self, _v: u8) -> Result<(), E> {
        Err(E)
    }
    fn serialize_u16(self, _v: u16) -> Result<(), E> {
        Err(E)
    }
    fn serialize_u32(self, _v: u32) -> Result<(), E> {
        Err(E)
    }
    fn serialize_u64(self, _v: u64) -> Result<(), E> {
        Err(E)
    }
    fn serialize_f32(self, _v: f32) -> Result<(), E> {
        Err(E)
    }
    fn serialize_f64(self, _v: f64) -> Result<(), E> {
        Err(E)
    }
    fn serialize_char(self, _v: char) -> Result<(), E> {
        Err(E)
    }
    fn serialize_none(self) -> Result<(), E> {
        Err(E)
    }
    fn serialize_some<T: ?Sized + ser::Serialize>(self, _v: &T) -> Result<(), E> {
        Err(E)
    }
    fn serialize_unit(self) -> Result<(), E> {
        Err(E)
    }
    fn serialize_unit_struct(self, _n: &'static str) -> Result<(), E> {
        Err(E)
    }
    fn serialize_unit_variant(self, _n: &'static str, _i: u32, _v: &'static str) -> Result<(), E> {
        Err(E)
    }
    fn serialize_newtype_struct<T: ?Sized + ser::Serialize>(self, _n: &'static str, _v: &T) -> Result<(), E> {
        Err(E)
    }
    fn serialize_newtype_variant<T: ?Sized + ser::Serialize>(self, _n: &'static str, _i: u32, _v: &'static str, _x: &T) -> Result<(), E> {
        Err(E)
    }
    fn serialize_seq(self, _l: Option<usize>) -> Result<Self::SerializeSeq, E> {
        Err(E)
    }
    fn serialize_tuple(self, _l: usize) -> Result<Self::SerializeTuple, E> {
        Err(E)
    }
    fn serialize_tuple_struct(self, _n: &'static str, _l: usize) -> Result<Self::SerializeTupleStruct, E> {
        Err(E)
    }
    fn serialize_tuple_variant(self, _n: &'static str, _i: u32, _v: &'static str, _l: usize) -> Result<Self::SerializeTupleVariant, E> {
        Err(E)
    }
    fn serialize_map(self, _l: Option<usize>) -> Result<Self::SerializeMap, E> {
        Err(E)
    }
    fn serialize_struct(self, _n: &'static str, _l: usize) -> Result<Self::SerializeStruct, E> {
        Err(E)
    }
    fn serialize_struct_variant(self, _n: &'static str, _i: u32, _v: &'static str, _l: usize) -> Result<Self::SerializeStructVariant, E> {
        Err(E)
    }
}
