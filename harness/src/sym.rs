//! Symbolic input layer.  Under Kani every value is `kani::any()`; natively the
//! same calls pop recorded values (the solver's counterexample, in call
//! order), so a harness body is one piece of code that is both model-checked
//! and replayed against the real crate.

#[cfg(not(kani))]
pub mod native {
    use std::cell::RefCell;
    use std::collections::VecDeque;
    thread_local! {
        pub static QUEUE: RefCell<VecDeque<u8>> = RefCell::new(VecDeque::new());
        pub static COVERS: RefCell<Vec<&'static str>> = RefCell::new(Vec::new());
        /// fuzz mode: `any_usize` takes one small byte; everything handed out is
        /// recorded in replay format.
        pub static FUZZ: RefCell<bool> = RefCell::new(false);
        pub static RECORD: RefCell<Vec<u8>> = RefCell::new(Vec::new());
    }
    pub fn fuzzing() -> bool {
        FUZZ.with(|f| *f.borrow())
    }
    pub fn record(b: &[u8]) {
        RECORD.with(|r| r.borrow_mut().extend_from_slice(b));
    }
    /// Marker payload used to tell "assumption not met" from a real failure.
    pub struct AssumeFailed;
    pub struct OutOfInput;
    pub fn load(bytes: &[u8]) {
        QUEUE.with(|q| {
            let mut q = q.borrow_mut();
            q.clear();
            q.extend(bytes.iter().copied());
        });
        COVERS.with(|c| c.borrow_mut().clear());
        RECORD.with(|c| c.borrow_mut().clear());
    }
    pub fn pop(n: usize) -> Vec<u8> {
        QUEUE.with(|q| {
            let mut q = q.borrow_mut();
            let mut v = Vec::with_capacity(n);
            for _ in 0..n {
                match q.pop_front() {
                    Some(b) => v.push(b),
                    None => std::panic::panic_any(OutOfInput),
                }
            }
            v
        })
    }
    // --- native allocation detector (C20 replay): counts heap allocations
    // made while armed.  Under Kani the allocator entry points are stubbed by
    // a panic instead.
    use std::alloc::{GlobalAlloc, Layout, System};
    use std::sync::atomic::{AtomicBool, AtomicUsize, Ordering};
    pub static ARMED: AtomicBool = AtomicBool::new(false);
    pub static ALLOCS: AtomicUsize = AtomicUsize::new(0);
    pub struct Counting;
    unsafe impl GlobalAlloc for Counting {
        unsafe fn alloc(&self, l: Layout) -> *mut u8 {
            if ARMED.load(Ordering::Relaxed) {
                ALLOCS.fetch_add(1, Ordering::Relaxed);
            }
            System.alloc(l)
        }
        unsafe fn dealloc(&self, p: *mut u8, l: Layout) {
            System.dealloc(p, l)
        }
        unsafe fn alloc_zeroed(&self, l: Layout) -> *mut u8 {
            if ARMED.load(Ordering::Relaxed) {
                ALLOCS.fetch_add(1, Ordering::Relaxed);
            }
            System.alloc_zeroed(l)
        }
        unsafe fn realloc(&self, p: *mut u8, l: Layout, n: usize) -> *mut u8 {
            if ARMED.load(Ordering::Relaxed) {
                ALLOCS.fetch_add(1, Ordering::Relaxed);
            }
            System.realloc(p, l, n)
        }
    }
    #[global_allocator]
    static GLOBAL: Counting = Counting;

    pub fn covered(msg: &'static str) {
        COVERS.with(|c| c.borrow_mut().push(msg));
    }
}

#[inline(always)]
pub fn any_u8() -> u8 {
    #[cfg(kani)]
    {
        kani::any()
    }
    #[cfg(not(kani))]
    {
        let v = native::pop(1);
        native::record(&v);
        v[0]
    }
}

#[inline(always)]
pub fn any_bool() -> bool {
    #[cfg(kani)]
    {
        kani::any()
    }
    #[cfg(not(kani))]
    {
        let v = native::pop(1);
        native::record(&[v[0] & 1]);
        v[0] & 1 == 1
    }
}

#[inline(always)]
pub fn any_usize() -> usize {
    #[cfg(kani)]
    {
        kani::any()
    }
    #[cfg(not(kani))]
    {
        if native::fuzzing() {
            let n = (native::pop(1)[0] % 20) as usize;
            native::record(&n.to_le_bytes());
            return n;
        }
        let v = native::pop(8);
        native::record(&v);
        usize::from_le_bytes([v[0], v[1], v[2], v[3], v[4], v[5], v[6], v[7]])
    }
}

#[inline(always)]
pub fn any_array<const N: usize>() -> [u8; N] {
    #[cfg(kani)]
    {
        kani::any()
    }
    #[cfg(not(kani))]
    {
        let v = native::pop(N);
        native::record(&v);
        let mut a = [0u8; N];
        a.copy_from_slice(&v);
        a
    }
}

#[inline(always)]
pub fn assume(c: bool) {
    #[cfg(kani)]
    {
        kani::assume(c)
    }
    #[cfg(not(kani))]
    {
        if !c {
            std::panic::panic_any(native::AssumeFailed)
        }
    }
}

/// Start of a region that must not allocate (C20).  Under Kani the allocator
/// entry points are stubbed by a panic; natively allocations are counted.
#[inline(always)]
pub fn no_alloc_begin() {
    #[cfg(not(kani))]
    {
        native::ALLOCS.store(0, std::sync::atomic::Ordering::Relaxed);
        native::ARMED.store(true, std::sync::atomic::Ordering::Relaxed);
    }
}

#[inline(always)]
pub fn no_alloc_end() {
    #[cfg(not(kani))]
    {
        native::ARMED.store(false, std::sync::atomic::Ordering::Relaxed);
        assert!(native::ALLOCS.load(std::sync::atomic::Ordering::Relaxed) == 0, "STUB: heap allocation (native allocation counter)");
    }
}

/// `cover!(cond, "label")`: reachability witness.  The runner requires every
/// cover of a passing harness to be SATISFIED (vacuity guard).
#[macro_export]
macro_rules! cover {
    ($c:expr, $m:literal) => {{
        #[cfg(kani)]
        {
            kani::cover!($c, $m);
        }
        #[cfg(not(kani))]
        {
            if $c {
                $crate::sym::native::covered($m);
            }
        }
    }};
}

/// A text of symbolic length `<= N` in a fixed array (the flat input model).
pub struct Text<const N: usize> {
    pub buf: [u8; N],
    pub len: usize,
}

impl<const N: usize> Text<N> {
    #[inline(always)]
    pub fn any() -> Self {
        let buf = any_array::<N>();
        let len = any_usize();
        assume(len <= N);
        Text { buf, len }
    }
    #[inline(always)]
    pub fn bytes(&self) -> &[u8] {
        &self.buf[..self.len]
    }
}

/// Capacity of every owned buffer built by the harnesses (no reallocation may
/// be needed inside the bounds: the growth stubs assert it).
pub const CAP: usize = 40;

/// An owned copy of `b` in a buffer of concrete capacity `CAP` (a `to_vec()`
/// of symbolic length makes CBMC run out of memory).
#[inline(always)]
pub fn vec_of(b: &[u8]) -> Vec<u8> {
    assert!(b.len() <= CAP);
    let mut v: Vec<u8> = Vec::with_capacity(CAP);
    unsafe {
        let p = v.as_mut_ptr();
        let mut i = 0;
        while i < b.len() {
            p.add(i).write(b[i]);
            i += 1;
        }
        v.set_len(b.len());
    }
    v
}

/// Same with a per-harness capacity `C` (the SAT encoding of every splice grows
/// with the size of the heap object; `C` must cover the longest text the
/// harness can produce, which the growth stubs assert).
#[inline(always)]
pub fn vec_cap<const C: usize>(b: &[u8]) -> Vec<u8> {
    assert!(b.len() <= C);
    let mut v: Vec<u8> = Vec::with_capacity(C);
    unsafe {
        let p = v.as_mut_ptr();
        let mut i = 0;
        while i < b.len() {
            p.add(i).write(b[i]);
            i += 1;
        }
        v.set_len(b.len());
    }
    v
}

/// `&str` view of bytes already known to be UTF-8 (the IRI table twins accept
/// well-formed UTF-8 only).
#[inline(always)]
pub fn as_str(b: &[u8]) -> &str {
    unsafe { std::str::from_utf8_unchecked(b) }
}

/// `s` is exactly the sub-slice `whole[start..end]` (same address, same length).
#[inline(always)]
pub fn is_subslice(whole: &[u8], s: &[u8], start: usize, end: usize) -> bool {
    start <= end
        && end <= whole.len()
        && s.len() == end - start
        && s.as_ptr() == whole[start..].as_ptr()
}

/// Byte equality written as an index loop (Kani's slice `==` is a memcmp loop
/// as well; this keeps the unwind bound visible).
#[inline(always)]
pub fn bytes_eq(a: &[u8], b: &[u8]) -> bool {
    if a.len() != b.len() {
        return false;
    }
    let mut i = 0;
    while i < a.len() {
        if a[i] != b[i] {
            return false;
        }
        i += 1;
    }
    true
}
