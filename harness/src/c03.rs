//! C03 — authority accessors return user info, host and port per RFC 3986 3.2.
use crate::oracle::{split_auth, AuthSplit, R};
use crate::sym::{as_str, assume, is_subslice, Text};
use crate::{cover, tables};
use iref_core::{iri, uri};

pub type Parts3<'a> = (Option<&'a [u8]>, &'a [u8], Option<&'a [u8]>);

pub trait AuthLike {
    fn text(&self) -> &[u8];
    fn user_info_b(&self) -> Option<&[u8]>;
    fn host_b(&self) -> &[u8];
    fn port_b(&self) -> Option<&[u8]>;
    fn parts_b(&self) -> Parts3<'_>;
}

macro_rules! authlike {
    ($t:ty) => {
        impl AuthLike for $t {
            fn text(&self) -> &[u8] {
                self.as_bytes()
            }
            fn user_info_b(&self) -> Option<&[u8]> {
                self.user_info().map(|u| u.as_bytes())
            }
            fn host_b(&self) -> &[u8] {
                self.host().as_bytes()
            }
            fn port_b(&self) -> Option<&[u8]> {
                self.port().map(|p| p.as_bytes())
            }
            fn parts_b(&self) -> Parts3<'_> {
                let p = self.parts();
                (p.user_info.map(|u| u.as_bytes()), p.host.as_bytes(), p.port.map(|p| p.as_bytes()))
            }
        }
    };
}
authlike!(uri::Authority);
authlike!(iri::Authority);

#[inline(always)]
fn opt_is(whole: &[u8], got: Option<&[u8]>, want: Option<R>) -> bool {
    match (got, want) {
        (None, None) => true,
        (Some(g), Some((s, e))) => is_subslice(whole, g, s, e),
        _ => false,
    }
}

/// `[ userinfo "@" ] host [ ":" port ]` reassembles the text (index identity).
fn auth_tiles(a: &[u8], s: &AuthSplit) -> bool {
    let mut i = 0;
    if let Some((x, e)) = s.user_info {
        if x != 0 || e >= a.len() || a[e] != b'@' {
            return false;
        }
        i = e + 1;
    }
    if s.host.0 != i {
        return false;
    }
    i = s.host.1;
    if let Some((x, e)) = s.port {
        if x != i + 1 || x > a.len() || a[i] != b':' {
            return false;
        }
        i = e;
    }
    i == a.len()
}

pub fn check_authority<A: AuthLike + ?Sized>(x: &A, want: &AuthSplit) {
    let w = x.text();
    assert!(auth_tiles(w, want), "oracle self-check: section 3.2 parts reassemble the authority");
    assert!(opt_is(w, x.user_info_b(), want.user_info), "user_info() differs from RFC 3986 3.2");
    assert!(is_subslice(w, x.host_b(), want.host.0, want.host.1), "host() differs from RFC 3986 3.2");
    assert!(opt_is(w, x.port_b(), want.port), "port() differs from RFC 3986 3.2");
    let (u, h, p) = x.parts_b();
    assert!(opt_is(w, u, want.user_info), "parts().user_info differs from RFC 3986 3.2");
    assert!(is_subslice(w, h, want.host.0, want.host.1), "parts().host differs from RFC 3986 3.2");
    assert!(opt_is(w, p, want.port), "parts().port differs from RFC 3986 3.2");
}

fn auth_covers(b: &[u8], s: &AuthSplit) {
    cover!(s.user_info.is_some() && s.host.1 > s.host.0 && b[s.host.0] == b'[', "user info followed by an IP literal");
    cover!(s.user_info.is_none() && s.host.1 > s.host.0 && b[s.host.0] == b'[' && s.port.is_some(), "IP literal followed by a port");
    cover!(matches!(s.user_info, Some((a, e)) if e > a + 1 && b[a + 1] == b':'), "':' inside the user info");
    cover!(matches!(s.port, Some((a, e)) if a == e), "present-but-empty port");
    cover!(matches!(s.user_info, Some((a, e)) if a == e), "present-but-empty user info");
    cover!(s.host.0 == s.host.1 && s.port.is_some(), "empty host with a port");
}

fn uri_authority_body<const N: usize>() {
    let t = Text::<N>::any();
    let b = t.bytes();
    assume(tables::t_uri_authority_valid_k(b, N));
    let a = unsafe { uri::Authority::new_unchecked(b) };
    let want = split_auth(b);
    check_authority(a, &want);
    auth_covers(b, &want);
    cover!(b.len() == N, "maximal length");
}

fn iri_authority_body<const N: usize>() {
    let t = Text::<N>::any();
    let b = t.bytes();
    assume(tables::t_iri_authority_valid_k(b, N));
    let a = unsafe { iri::Authority::new_unchecked(as_str(b)) };
    let want = split_auth(b);
    check_authority(a, &want);
    auth_covers(b, &want);
    cover!(b.len() > 2 && b[0] >= 0xE0, "host starting with a 3-4 byte scalar");
}

// @h prop=C03,C20:thorough tier=quick kind=check bound="uri::Authority text <= 12 bytes" encodes="parse::{user_info_or_host,find_user_info,host,find_host,port,find_port};AuthorityImpl::{parts,user_info,host,port};uri::Authority::parts"
#[cfg_attr(kani, kani::proof)]
#[cfg_attr(kani, kani::unwind(14))]
pub fn c03_uri_authority_n12() {
    uri_authority_body::<12>()
}

// @h prop=C03,C20:thorough tier=thorough kind=check timeout=2400 bound="uri::Authority text <= 16 bytes" encodes="same as c03_uri_authority_n12"
#[cfg_attr(kani, kani::proof)]
#[cfg_attr(kani, kani::unwind(18))]
pub fn c03_uri_authority_n16() {
    uri_authority_body::<16>()
}

// @h prop=C03,C20:thorough tier=quick kind=check bound="iri::Authority text <= 10 bytes (UTF-8)" encodes="same parse::* via AuthorityImpl for iri::Authority;iri::Authority::parts"
#[cfg_attr(kani, kani::proof)]
#[cfg_attr(kani, kani::unwind(12))]
pub fn c03_iri_authority_n10() {
    iri_authority_body::<10>()
}

// @h prop=C03 tier=thorough kind=check timeout=2400 bound="iri::Authority text <= 14 bytes" encodes="same as c03_iri_authority_n10"
#[cfg_attr(kani, kani::proof)]
#[cfg_attr(kani, kani::unwind(16))]
pub fn c03_iri_authority_n14() {
    iri_authority_body::<14>()
}

/// Every part is a valid value of its own type.
fn parts_valid<const N: usize>() {
    let t = Text::<N>::any();
    let b = t.bytes();
    assume(tables::t_uri_authority_valid_k(b, N));
    let a = unsafe { uri::Authority::new_unchecked(b) };
    let p = a.parts();
    if let Some(u) = p.user_info {
        assert!(uri::UserInfo::new(u.as_bytes()).is_ok(), "returned user info is not a valid UserInfo");
    }
    assert!(tables::t_uri_host_valid_k(p.host.as_bytes(), N), "returned host is not a valid Host");
    if let Some(q) = p.port {
        assert!(uri::Port::new(q.as_bytes()).is_ok(), "returned port is not a valid Port");
    }
    assert!(tables::t_uri_host_valid_k(a.host().as_bytes(), N), "host() is not a valid Host");
    cover!(p.user_info.is_some() && p.port.is_some(), "user info and port present");
}

// @h prop=C03 tier=quick kind=check bound="uri::Authority text <= 9 bytes" encodes="uri::Authority::{parts,host};UserInfo::new;Port::new (real validate);Host table twin"
#[cfg_attr(kani, kani::proof)]
#[cfg_attr(kani, kani::unwind(11))]
pub fn c03_uri_parts_valid_n9() {
    parts_valid::<9>()
}

/// The same accessors reached through a URI reference: `authority()` of a
/// reference, then its parts.
fn embedded<const N: usize>() {
    let t = Text::<N>::any();
    let b = t.bytes();
    assume(tables::t_uri_uriref_valid_k(b, N));
    let r = unsafe { iref_core::UriRef::new_unchecked(b) };
    if let Some(a) = r.authority() {
        let want = split_auth(a.as_bytes());
        check_authority(a, &want);
        cover!(want.user_info.is_some() && want.port.is_some(), "embedded authority with user info and port");
    }
}

// @h prop=C03 tier=quick kind=check bound="UriRef text <= 9 bytes" encodes="RiRefImpl::authority then AuthorityImpl::* on the returned view"
#[cfg_attr(kani, kani::proof)]
#[cfg_attr(kani, kani::unwind(11))]
pub fn c03_embedded_n9() {
    embedded::<9>()
}

// @h prop=C03 tier=thorough kind=check timeout=3000 bound="UriRef text <= 13 bytes" encodes="same as c03_embedded_n9"
#[cfg_attr(kani, kani::proof)]
#[cfg_attr(kani, kani::unwind(15))]
pub fn c03_embedded_n13() {
    embedded::<13>()
}
