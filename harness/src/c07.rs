//! C07 / C08 — equality is the documented normalising equivalence and is total;
//! Eq, Ord and Hash agree with each other and across views.
//!
//! Oracle: a canonical form (percent-decoded octets; dot-free decoded segment
//! list + absolute flag; scheme and port literal).  `a == b` must be equality
//! of canonical forms and `cmp` their lexicographic order, which makes the
//! oracle an equivalence / a total order by construction, so agreement on all
//! pairs gives reflexivity, symmetry, transitivity and totality of the
//! implementation.
use crate::oracle::{normalize_list, pct_decode, seg, split_auth, split_path, split_ref, SegList, DEC_MAX};
use crate::sym::{as_str, assume, bytes_eq, Text};
use crate::{cover, tables};
use iref_core::{iri, uri, Iri, IriRef, Uri, UriBuf, UriRef, UriRefBuf};
use std::cmp::Ordering;
use std::hash::{Hash, Hasher};

/// A hasher that records the byte stream it is fed ("hash identically for
/// every hasher" == identical streams).
pub struct Stream {
    pub buf: [u8; 160],
    pub len: usize,
}
impl Stream {
    pub fn new() -> Self {
        Stream { buf: [0; 160], len: 0 }
    }
    pub fn of<T: Hash + ?Sized>(x: &T) -> Self {
        let mut s = Stream::new();
        x.hash(&mut s);
        s
    }
    /// `y` feeds a hasher exactly the recorded stream (compared write by
    /// write, so that no loop is longer than one `write` call: 8 bytes).
    pub fn same_as<T: Hash + ?Sized>(&self, y: &T) -> bool {
        let mut c = StreamCheck { reference: self, pos: 0, ok: true };
        y.hash(&mut c);
        c.ok && c.pos == self.len
    }
    pub fn same(&self, o: &Stream) -> bool {
        bytes_eq(&self.buf[..self.len], &o.buf[..o.len])
    }
}

pub struct StreamCheck<'a> {
    reference: &'a Stream,
    pos: usize,
    ok: bool,
}
impl<'a> Hasher for StreamCheck<'a> {
    fn finish(&self) -> u64 {
        0
    }
    fn write(&mut self, bytes: &[u8]) {
        let mut i = 0;
        while i < bytes.len() {
            if self.pos >= self.reference.len || self.reference.buf[self.pos] != bytes[i] {
                self.ok = false;
            }
            self.pos += 1;
            i += 1;
        }
    }
}
impl Hasher for Stream {
    fn finish(&self) -> u64 {
        0
    }
    fn write(&mut self, bytes: &[u8]) {
        let mut i = 0;
        while i < bytes.len() {
            assert!(self.len < 160, "hash stream longer than the recorder");
            self.buf[self.len] = bytes[i];
            self.len += 1;
            i += 1;
        }
    }
}

fn lex(a: &[u8], b: &[u8]) -> Ordering {
    let mut i = 0;
    loop {
        if i == a.len() && i == b.len() {
            return Ordering::Equal;
        }
        if i == a.len() {
            return Ordering::Less;
        }
        if i == b.len() {
            return Ordering::Greater;
        }
        if a[i] < b[i] {
            return Ordering::Less;
        }
        if a[i] > b[i] {
            return Ordering::Greater;
        }
        i += 1;
    }
}

/// Eq / Ord / Hash of two values against the oracle order of their canonical
/// forms.
macro_rules! check_pair {
    ($x:expr, $y:expr, $want:expr, $what:literal) => {{
        let want: Ordering = $want;
        let eq = *$x == *$y;
        assert!(eq == (want == Ordering::Equal), "C07: equality differs from equality of the canonical forms");
        assert!((*$y == *$x) == eq, "C07: equality is not symmetric");
        let c = $x.cmp($y);
        assert!(c == want, "C08: ordering differs from the order of the canonical forms");
        assert!($y.cmp($x) == want.reverse(), "C08: ordering is not antisymmetric");
        assert!($x.partial_cmp($y) == Some(c), "C08: partial_cmp != Some(cmp)");
        if eq {
            assert!(Stream::of($x).same_as($y), "C08: equal values feed different data to the hasher");
        }
    }};
}

/// The same three groups of assertions, one group per harness (composite types:
/// every comparison re-normalises the symbolic operand, so the groups are
/// decided in separate solver runs).
pub const EQ: u8 = 0;
pub const ORD: u8 = 1;
pub const HASH: u8 = 2;

macro_rules! check_mode {
    ($mode:expr, $x:expr, $y:expr, $want:expr, $what:literal) => {{
        let want: Ordering = $want;
        if $mode == EQ {
            let eq = *$x == *$y;
            assert!(eq == (want == Ordering::Equal), "C07: equality differs from equality of the canonical forms");
            assert!((*$y == *$x) == eq, "C07: equality is not symmetric");
        } else if $mode == ORD {
            let c = $x.cmp($y);
            assert!(c == want, "C08: ordering differs from the order of the canonical forms");
            assert!($x.partial_cmp($y) == Some(c), "C08: partial_cmp != Some(cmp)");
        } else {
            if want == Ordering::Equal {
                assert!(Stream::of($x).same_as($y), "C08: equal values feed different data to the hasher");
            }
        }
    }};
}

macro_rules! pct_pair {
    ($fname:ident, $T:ty, $mk:expr, $what:literal) => {
        /// Components compared after percent-decoding (octets).  MODE selects
        /// which group of assertions this instance decides (EQ / ORD / HASH).
        fn $fname<const N: usize, const MODE: u8>() {
            let ta = Text::<N>::any();
            let tb = Text::<N>::any();
            let (a, b) = (ta.bytes(), tb.bytes());
            let x: &$T = match $mk(a) {
                Some(x) => x,
                None => return,
            };
            let y: &$T = match $mk(b) {
                Some(y) => y,
                None => return,
            };
            let (da, na) = pct_decode(a);
            let (db, nb) = pct_decode(b);
            let want = lex(&da[..na], &db[..nb]);
            check_mode!(MODE, x, y, want, $what);
            cover!(a.len() == 3 && b.len() == 1 && want == Ordering::Equal, "an escape equal to a literal byte");
            cover!(a.len() == 3 && a[0] == b'%' && da[0] >= 0x80, "escape of a non-ASCII octet (e.g. %FF)");
            cover!(a.len() != b.len() && want != Ordering::Equal && a.len() > 1, "different values");
        }
    };
}

fn mk_uri_segment(b: &[u8]) -> Option<&uri::Segment> {
    uri::Segment::new(b).ok()
}
fn mk_uri_query(b: &[u8]) -> Option<&uri::Query> {
    uri::Query::new(b).ok()
}
fn mk_uri_fragment(b: &[u8]) -> Option<&uri::Fragment> {
    uri::Fragment::new(b).ok()
}
fn mk_uri_userinfo(b: &[u8]) -> Option<&uri::UserInfo> {
    uri::UserInfo::new(b).ok()
}
fn mk_uri_host(b: &[u8]) -> Option<&uri::Host> {
    if tables::t_uri_host_valid_k(b, 8) {
        Some(unsafe { uri::Host::new_unchecked(b) })
    } else {
        None
    }
}
fn mk_iri_segment(b: &[u8]) -> Option<&iri::Segment> {
    if tables::t_iri_segment_valid_k(b, 8) {
        Some(unsafe { iri::Segment::new_unchecked(as_str(b)) })
    } else {
        None
    }
}
fn mk_iri_query(b: &[u8]) -> Option<&iri::Query> {
    if tables::t_iri_query_valid_k(b, 8) {
        Some(unsafe { iri::Query::new_unchecked(as_str(b)) })
    } else {
        None
    }
}

pct_pair!(uri_segment_pair, uri::Segment, mk_uri_segment, "uri::Segment");
pct_pair!(uri_query_pair, uri::Query, mk_uri_query, "uri::Query");
pct_pair!(uri_fragment_pair, uri::Fragment, mk_uri_fragment, "uri::Fragment");
pct_pair!(uri_userinfo_pair, uri::UserInfo, mk_uri_userinfo, "uri::UserInfo");
pct_pair!(uri_host_pair, uri::Host, mk_uri_host, "uri::Host");
pct_pair!(iri_segment_pair, iri::Segment, mk_iri_segment, "iri::Segment");
pct_pair!(iri_query_pair, iri::Query, mk_iri_query, "iri::Query");

// @h prop=C07 tier=quick kind=check timeout=2400 mem=10 bound="all pairs of uri::Segment values <= 4 bytes each (escapes of any octet incl. %FF)" encodes="PartialEq/Ord/Hash for uri::Segment;utils::{pct_eq,pct_cmp,pct_hash};pct_str::Bytes::next"
#[cfg_attr(kani, kani::proof)]
#[cfg_attr(kani, kani::unwind(10))]
pub fn c07_uri_segment_pair_n4() {
    uri_segment_pair::<4, EQ>()
}

// @h prop=C07 tier=quick kind=check timeout=2400 mem=10 bound="all pairs of uri::Host values <= 4 bytes each" encodes="PartialEq/Ord/Hash for uri::Host"
#[cfg_attr(kani, kani::proof)]
#[cfg_attr(kani, kani::unwind(10))]
pub fn c07_uri_host_pair_n4() {
    uri_host_pair::<4, EQ>()
}

// @h prop=C07 tier=thorough kind=check timeout=3000 mem=20 bound="all pairs of uri::Query values <= 5 bytes each" encodes="PartialEq/Ord/Hash for uri::Query"
#[cfg_attr(kani, kani::proof)]
#[cfg_attr(kani, kani::unwind(10))]
pub fn c07_uri_query_pair_n5() {
    uri_query_pair::<5, EQ>()
}

// @h prop=C07 tier=thorough kind=check timeout=3000 mem=20 bound="all pairs of uri::Fragment values <= 5 bytes each" encodes="PartialEq/Ord/Hash for uri::Fragment"
#[cfg_attr(kani, kani::proof)]
#[cfg_attr(kani, kani::unwind(10))]
pub fn c07_uri_fragment_pair_n5() {
    uri_fragment_pair::<5, EQ>()
}

// @h prop=C07 tier=thorough kind=check timeout=3000 mem=20 bound="all pairs of uri::UserInfo values <= 5 bytes each" encodes="PartialEq/Ord/Hash for uri::UserInfo"
#[cfg_attr(kani, kani::proof)]
#[cfg_attr(kani, kani::unwind(10))]
pub fn c07_uri_userinfo_pair_n5() {
    uri_userinfo_pair::<5, EQ>()
}

// @h prop=C07 tier=quick kind=check timeout=2400 mem=10 bound="all pairs of iri::Segment values <= 4 bytes each (literal non-ASCII vs escapes: e-acute vs %C3%A9 needs 6, see n6)" encodes="PartialEq/Ord/Hash for iri::Segment"
#[cfg_attr(kani, kani::proof)]
#[cfg_attr(kani, kani::unwind(10))]
pub fn c07_iri_segment_pair_n4() {
    iri_segment_pair::<4, EQ>()
}

// @h prop=C07 tier=thorough kind=check timeout=3000 mem=20 bound="all pairs of iri::Query values <= 5 bytes each" encodes="PartialEq/Ord/Hash for iri::Query"
#[cfg_attr(kani, kani::proof)]
#[cfg_attr(kani, kani::unwind(10))]
pub fn c07_iri_query_pair_n5() {
    iri_query_pair::<5, EQ>()
}

/// Scheme and port: literal comparison.
fn literal_pair<const N: usize>() {
    let ta = Text::<N>::any();
    let tb = Text::<N>::any();
    let (a, b) = (ta.bytes(), tb.bytes());
    if let (Ok(x), Ok(y)) = (uri::Scheme::new(a), uri::Scheme::new(b)) {
        check_pair!(x, y, lex(a, b), "uri::Scheme");
        cover!(a.len() == N && *x == *y, "equal schemes of maximal length");
        cover!(a.len() == b.len() && a.len() > 1 && *x != *y, "same length, case differs or other bytes");
    }
    if let (Ok(x), Ok(y)) = (uri::Port::new(a), uri::Port::new(b)) {
        check_pair!(x, y, lex(a, b), "uri::Port");
    }
}

// @h prop=C07,C08 tier=quick kind=check bound="all pairs of Scheme / Port values <= 4 bytes each" encodes="derived PartialEq/Ord/Hash for uri::Scheme and uri::Port (literal bytes)"
#[cfg_attr(kani, kani::proof)]
#[cfg_attr(kani, kani::unwind(10))]
pub fn c07_literal_pair_n4() {
    literal_pair::<4>()
}

// ---------------------------------------------------------------- canonical
/// Canonical form of a path: absolute flag, then each normalised segment
/// percent-decoded and followed by a separator that cannot occur in it (we use
/// the pair (0x2F) since a decoded '/' inside a segment must not be confused
/// with a boundary, the segment length is recorded instead).
fn canon_path(p: &[u8], out: &mut [u8; 64]) -> usize {
    let l = SegList::of(&split_path(p));
    let absolute = p.first() == Some(&b'/');
    let n = normalize_list(p, &l, absolute);
    let mut k = 0;
    out[k] = absolute as u8;
    k += 1;
    let mut i = 0;
    while i < n.n {
        let s = seg(p, n.r[i]);
        let (d, dn) = pct_decode(s);
        out[k] = 1; // "a segment follows" (so that a shorter list orders first)
        k += 1;
        out[k] = dn as u8;
        k += 1;
        let mut j = 0;
        while j < dn {
            out[k] = d[j];
            k += 1;
            j += 1;
        }
        i += 1;
    }
    out[k] = 0;
    k + 1
}

/// Order of two paths as the documented comparison defines it: relative
/// before absolute, then segment by segment (decoded octets), a proper prefix
/// first.
fn path_order(a: &[u8], b: &[u8]) -> Ordering {
    let aa = a.first() == Some(&b'/');
    let ba = b.first() == Some(&b'/');
    if aa != ba {
        return if aa { Ordering::Greater } else { Ordering::Less };
    }
    let la = SegList::of(&split_path(a));
    let lb = SegList::of(&split_path(b));
    let na = normalize_list(a, &la, aa);
    let nb = normalize_list(b, &lb, ba);
    let mut i = 0;
    loop {
        if i == na.n && i == nb.n {
            return Ordering::Equal;
        }
        if i == na.n {
            return Ordering::Less;
        }
        if i == nb.n {
            return Ordering::Greater;
        }
        let (da, x) = pct_decode(seg(a, na.r[i]));
        let (db, y) = pct_decode(seg(b, nb.r[i]));
        let c = lex(&da[..x], &db[..y]);
        if c != Ordering::Equal {
            return c;
        }
        i += 1;
    }
}

pub const PATH_REPS: [&[u8]; 14] = [
    b"", b"/", b"a", b"a/", b"a/b", b"..", b"a/..", b"./a", b"//a", b"%61", b"/a", b"/a/.", b"../a", b"/%2F",
];

/// One operand symbolic, the other a listed representative (so that one
/// normalisation constant-folds).
fn path_vs_rep<const N: usize, const K: usize, const MODE: u8>() {
    let t = Text::<N>::any();
    let a = t.bytes();
    assume(uri::Path::new(a).is_ok());
    let x = unsafe { uri::Path::new_unchecked(a) };
    let r = PATH_REPS[K];
    let y = unsafe { uri::Path::new_unchecked(r) };
    let want = path_order(a, r);
    check_mode!(MODE, x, y, want, "uri::Path");
    cover!(want == Ordering::Equal && a.len() != r.len(), "equal to the representative with a different text");
    cover!(want != Ordering::Equal, "different from the representative");
}

// @h prop=C07,C08 tier=thorough kind=check timeout=3000 mem=30 bound="uri::Path <= 4 bytes x representative 'a/..': equality, both orders" encodes="PartialEq/Ord/Hash for uri::Path;NormalizedSegmentsImpl::new (SmallVec::push/try_grow stubbed)"
#[cfg_attr(kani, kani::proof)]
#[cfg_attr(kani, kani::unwind(10))]
#[cfg_attr(kani, kani::stub(smallvec::SmallVec::try_grow, crate::stubs::sv_try_grow))]
#[cfg_attr(kani, kani::stub(smallvec::SmallVec::push, crate::stubs::sv_push))]
pub fn c07_path_eq_rep6_n4() {
    path_vs_rep::<4, 6, EQ>()
}

// @h prop=C07,C08 tier=thorough kind=check timeout=3000 mem=30 bound="uri::Path <= 4 bytes x representative '//a': ordering" encodes="same as c07_path_vs_rep6_n4"
#[cfg_attr(kani, kani::proof)]
#[cfg_attr(kani, kani::unwind(10))]
#[cfg_attr(kani, kani::stub(smallvec::SmallVec::try_grow, crate::stubs::sv_try_grow))]
#[cfg_attr(kani, kani::stub(smallvec::SmallVec::push, crate::stubs::sv_push))]
pub fn c07_path_ord_rep8_n4() {
    path_vs_rep::<4, 8, ORD>()
}

// @h prop=C07,C08 tier=thorough kind=check timeout=5400 mem=26 bound="uri::Path <= 5 bytes x representative 'a/..': equality, both orders" encodes="same as c07_path_vs_rep6_n4"
#[cfg_attr(kani, kani::proof)]
#[cfg_attr(kani, kani::unwind(10))]
#[cfg_attr(kani, kani::stub(smallvec::SmallVec::try_grow, crate::stubs::sv_try_grow))]
#[cfg_attr(kani, kani::stub(smallvec::SmallVec::push, crate::stubs::sv_push))]
pub fn c07_path_eq_rep6_n5() {
    path_vs_rep::<5, 6, EQ>()
}

// @h prop=C07,C08 tier=thorough kind=check timeout=5400 mem=26 bound="uri::Path <= 5 bytes x representative '//a': ordering" encodes="same as c07_path_vs_rep6_n4"
#[cfg_attr(kani, kani::proof)]
#[cfg_attr(kani, kani::unwind(10))]
#[cfg_attr(kani, kani::stub(smallvec::SmallVec::try_grow, crate::stubs::sv_try_grow))]
#[cfg_attr(kani, kani::stub(smallvec::SmallVec::push, crate::stubs::sv_push))]
pub fn c07_path_eq_rep8_n5() {
    path_vs_rep::<5, 8, EQ>()
}

/// Deeper, over a dot-segment alphabet ({'.','/','a'}), against a representative.
fn path_dots_vs_rep<const N: usize, const K: usize, const MODE: u8>() {
    let t = Text::<N>::any();
    let a = t.bytes();
    let mut i = 0;
    while i < a.len() {
        assume(a[i] == b'.' || a[i] == b'/' || a[i] == b'a');
        i += 1;
    }
    let x = unsafe { uri::Path::new_unchecked(a) };
    let r = PATH_REPS[K];
    let y = unsafe { uri::Path::new_unchecked(r) };
    let want = path_order(a, r);
    check_mode!(MODE, x, y, want, "uri::Path");
    cover!(want == Ordering::Equal && a.len() >= r.len() + 4, "equal to the representative after removing two or more dot segments");
    cover!(want != Ordering::Equal, "different from the representative");
}

// @h prop=C07,C08 tier=thorough kind=check timeout=3000 mem=30 bound="paths <= 7 bytes over the alphabet {'.','/','a'} x representative '..' (both orders)" encodes="PartialEq/Ord/Hash for uri::Path on dot-segment mixtures"
#[cfg_attr(kani, kani::proof)]
#[cfg_attr(kani, kani::unwind(10))]
#[cfg_attr(kani, kani::stub(smallvec::SmallVec::try_grow, crate::stubs::sv_try_grow))]
#[cfg_attr(kani, kani::stub(smallvec::SmallVec::push, crate::stubs::sv_push))]
pub fn c07_path_dots_eq_rep5_n7() {
    path_dots_vs_rep::<7, 5, EQ>()
}

// @h prop=C07,C08 tier=thorough kind=check timeout=3000 mem=30 bound="uri::Path <= 4 bytes x representative '%61': equal values hash identically" encodes="Hash for uri::Path (absolute flag + normalised segments through pct_hash)"
#[cfg_attr(kani, kani::proof)]
#[cfg_attr(kani, kani::unwind(10))]
#[cfg_attr(kani, kani::stub(smallvec::SmallVec::try_grow, crate::stubs::sv_try_grow))]
#[cfg_attr(kani, kani::stub(smallvec::SmallVec::push, crate::stubs::sv_push))]
pub fn c07_path_hash_rep9_n4() {
    path_vs_rep::<4, 9, HASH>()
}

// @h prop=C07 tier=quick kind=check timeout=2400 mem=6 bound="all pairs of uri::Segment values <= 3 bytes each (one escape of any octet incl. %FF vs a literal byte)" encodes="PartialEq/Ord/Hash for uri::Segment;utils::{pct_eq,pct_cmp,pct_hash};pct_str::Bytes::next"
#[cfg_attr(kani, kani::proof)]
#[cfg_attr(kani, kani::unwind(10))]
pub fn c07_uri_segment_pair_n3() {
    uri_segment_pair::<3, EQ>()
}

// @h prop=C07 tier=quick kind=check timeout=2400 mem=6 bound="all pairs of uri::Host values <= 3 bytes each" encodes="PartialEq/Ord/Hash for uri::Host"
#[cfg_attr(kani, kani::proof)]
#[cfg_attr(kani, kani::unwind(10))]
pub fn c07_uri_host_pair_n3() {
    uri_host_pair::<3, EQ>()
}

// @h prop=C07 tier=quick kind=check timeout=2400 mem=6 bound="all pairs of iri::Segment values <= 3 bytes each (a 3-byte scalar, or an escape)" encodes="PartialEq/Ord/Hash for iri::Segment"
#[cfg_attr(kani, kani::proof)]
#[cfg_attr(kani, kani::unwind(10))]
pub fn c07_iri_segment_pair_n3() {
    iri_segment_pair::<3, EQ>()
}

// @h prop=C08 tier=quick kind=check timeout=2400 mem=6 bound="all pairs of uri::Segment values <= 3 bytes each: ordering = order of the decoded octets" encodes="Ord/PartialOrd for uri::Segment;utils::pct_cmp"
#[cfg_attr(kani, kani::proof)]
#[cfg_attr(kani, kani::unwind(10))]
pub fn c08_uri_segment_ord_n3() {
    uri_segment_pair::<3, ORD>()
}

// @h prop=C08 tier=quick kind=check timeout=2400 mem=6 bound="all pairs of uri::Segment values <= 3 bytes each: equal values hash identically" encodes="Hash for uri::Segment;utils::pct_hash"
#[cfg_attr(kani, kani::proof)]
#[cfg_attr(kani, kani::unwind(10))]
pub fn c08_uri_segment_hash_n3() {
    uri_segment_pair::<3, HASH>()
}

// @h prop=C08 tier=quick kind=check timeout=2400 mem=10 bound="all pairs of uri::Segment values <= 4 bytes each: ordering = order of the decoded octets" encodes="Ord/PartialOrd for uri::Segment;utils::pct_cmp"
#[cfg_attr(kani, kani::proof)]
#[cfg_attr(kani, kani::unwind(10))]
pub fn c08_uri_segment_ord_n4() {
    uri_segment_pair::<4, ORD>()
}

// @h prop=C08 tier=quick kind=check timeout=2400 mem=10 bound="all pairs of uri::Segment values <= 4 bytes each: equal values hash identically" encodes="Hash for uri::Segment;utils::pct_hash"
#[cfg_attr(kani, kani::proof)]
#[cfg_attr(kani, kani::unwind(10))]
pub fn c08_uri_segment_hash_n4() {
    uri_segment_pair::<4, HASH>()
}

// @h prop=C08 tier=quick kind=check timeout=2400 mem=10 bound="all pairs of uri::Host values <= 3 bytes each: ordering and hashing" encodes="Ord/Hash for uri::Host"
#[cfg_attr(kani, kani::proof)]
#[cfg_attr(kani, kani::unwind(10))]
pub fn c08_uri_host_ord_n3() {
    uri_host_pair::<3, ORD>()
}

// @h prop=C08 tier=quick kind=check timeout=2400 mem=10 bound="all pairs of iri::Segment values <= 3 bytes each: equal values hash identically" encodes="Hash for iri::Segment"
#[cfg_attr(kani, kani::proof)]
#[cfg_attr(kani, kani::unwind(10))]
pub fn c08_iri_segment_hash_n3() {
    iri_segment_pair::<3, HASH>()
}
