//! Input classes of the open known findings (see /verif/known_findings.json).
//! A class is compiled in as an exclusion (`--cfg kf_<class>`) only while its
//! finding is open and its witness still fails; everything outside the class
//! stays fully checked.
use crate::oracle::pct_decode;
use crate::tables;

/// The percent-decoded octets of `b` are not well-formed UTF-8 (this includes
/// overlong forms and encoded surrogates, Unicode Table 3-7).
pub fn pct_illformed(b: &[u8]) -> bool {
    let (d, n) = pct_decode(b);
    !tables::t_utf8_valid(&d[..n])
}
