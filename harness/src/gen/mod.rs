//! `tables.rs` (table-walk twins of the generated automata, regenerated from
//! the macro expansion of the current tree) and `registry.rs` (harness name ->
//! function, for native replay) are written by the runner into the scratch
//! copy of this crate; they are not kept in /verif.
pub mod registry;
pub mod tables;
