//! C09 — dot-segment normalisation follows RFC 3986 5.2.4 and Errata 4547.
//! SmallVec spill paths (more than 16 segments / 512 bytes) are asserted
//! unreachable by the stubs, hence NOT verified: outside the claim.
use crate::oracle::{
    comps_of, is_dot, is_dotdot, normalize_list, plain_rendering_ok, rendering_eq_k, seg, shield_permitted, split_path, split_ref, SegList,
};
use crate::sym::{as_str, assume, bytes_eq, is_subslice, vec_cap, vec_of, Text};
use crate::{cover, tables};
use iref_core::{iri, uri, UriRefBuf};
use std::mem::forget;

fn shape_covers(b: &[u8], l: &SegList, n: &SegList) {
    cover!(l.n >= 3 && n.n < l.n, "at least three segments, some removed");
    cover!(n.n >= 1 && is_dotdot(seg(b, n.r[0])), "a leading '..' is kept (relative path)");
    cover!(b.first() == Some(&b'/') && l.n >= 2 && n.n == 0, "everything removed at the root");
}

/// The normalized-segment iterator yields exactly the oracle sequence, each
/// item a sub-slice of the input, and reports its length exactly.
fn normalized_segments<const N: usize>() {
    let t = Text::<N>::any();
    let b = t.bytes();
    assume(uri::Path::new(b).is_ok());
    let p = unsafe { uri::Path::new_unchecked(b) };
    let l = SegList::of(&split_path(b));
    let want = normalize_list(b, &l, b.first() == Some(&b'/'));
    let mut it = p.normalized_segments();
    assert!(it.len() == want.n, "C12/C09: normalized_segments().len() is not the number of normalized segments");
    let mut i = 0;
    while i < want.n {
        match it.next() {
            Some(s) => assert!(is_subslice(b, s.as_bytes(), want.r[i].0, want.r[i].1), "C09: normalized segment differs from RFC 3986 5.2.4 / Errata 4547"),
            None => panic!("C09: normalized_segments ended early"),
        }
        i += 1;
    }
    assert!(it.next().is_none(), "C09: normalized_segments yields more than the normalized sequence");
    shape_covers(b, &l, &want);
    forget(it);
}

// @h prop=C09,C12 tier=quick kind=check timeout=2400 mem=10 bound="uri::Path text <= 5 bytes (at most 16 segments / no SmallVec spill)" encodes="NormalizedSegmentsImpl::new;PathImpl::normalized_segments;smallvec IntoIter (SmallVec::push/try_grow stubbed: spill asserted unreachable)"
#[cfg_attr(kani, kani::proof)]
#[cfg_attr(kani, kani::unwind(8))]
#[cfg_attr(kani, kani::stub(smallvec::SmallVec::try_grow, crate::stubs::sv_try_grow))]
#[cfg_attr(kani, kani::stub(smallvec::SmallVec::push, crate::stubs::sv_push))]
pub fn c09_normalized_segments_n5() {
    normalized_segments::<5>()
}

/// Deeper, over a dot-segment alphabet: every byte is one of `.`, `/`, `a`
/// (all dot/parent/empty/ordinary segment mixtures up to the length bound).
fn normalized_segments_dots<const N: usize>() {
    let t = Text::<N>::any();
    let b = t.bytes();
    let mut i = 0;
    while i < b.len() {
        assume(b[i] == b'.' || b[i] == b'/' || b[i] == b'a');
        i += 1;
    }
    let p = unsafe { uri::Path::new_unchecked(b) };
    let l = SegList::of(&split_path(b));
    let want = normalize_list(b, &l, b.first() == Some(&b'/'));
    let mut it = p.normalized_segments();
    assert!(it.len() == want.n, "C12/C09: normalized_segments().len() is not the number of normalized segments");
    let mut i = 0;
    while i < want.n {
        match it.next() {
            Some(s) => assert!(is_subslice(b, s.as_bytes(), want.r[i].0, want.r[i].1), "C09: normalized segment differs from RFC 3986 5.2.4 / Errata 4547"),
            None => panic!("C09: normalized_segments ended early"),
        }
        i += 1;
    }
    assert!(it.next().is_none(), "C09: normalized_segments yields more than the normalized sequence");
    cover!(l.n >= 3 && want.n == 1 && is_dotdot(seg(b, want.r[0])), "'..' then a segment then '..' collapses to '..'");
    cover!(want.n >= 2 && is_dotdot(seg(b, want.r[1])), "two leading '..' kept");
    forget(it);
}

// @h prop=C09,C12,C07 tier=quick kind=check timeout=2400 mem=10 bound="paths <= 7 bytes over the alphabet {'.','/','a'}" encodes="NormalizedSegmentsImpl::new (stack discipline for '..' after '..', after a segment, at the root)"
#[cfg_attr(kani, kani::proof)]
#[cfg_attr(kani, kani::unwind(10))]
#[cfg_attr(kani, kani::stub(smallvec::SmallVec::try_grow, crate::stubs::sv_try_grow))]
#[cfg_attr(kani, kani::stub(smallvec::SmallVec::push, crate::stubs::sv_push))]
pub fn c09_normalized_segments_dots_n7() {
    normalized_segments_dots::<7>()
}

// @h prop=C09,C12 tier=thorough kind=check timeout=5400 mem=26 bound="paths <= 10 bytes over the alphabet {'.','/','a'}" encodes="same as c09_normalized_segments_dots_n7"
#[cfg_attr(kani, kani::proof)]
#[cfg_attr(kani, kani::unwind(13))]
#[cfg_attr(kani, kani::stub(smallvec::SmallVec::try_grow, crate::stubs::sv_try_grow))]
#[cfg_attr(kani, kani::stub(smallvec::SmallVec::push, crate::stubs::sv_push))]
pub fn c09_normalized_segments_dots_n10() {
    normalized_segments_dots::<10>()
}

/// The result of a normalisation is exactly `prefix ++ rendering ++ suffix`
/// where the rendering is that of the RFC 5.2.4 / Errata 4547 sequence of the
/// old path (plus the empty segment left by a final dot segment when
/// `trailing`), plain when that reads back faithfully, or behind the `.` shield
/// when the first segment is empty or contains ':'.  This one comparison gives
/// the segment sequence, idempotence (the sequence has no removable dot
/// segment), absolute/relative preservation and "nothing else changed".
/// `out` is read at concrete positions only.
fn result_is_expected(prefix: &[u8], oldp: &[u8], suffix: &[u8], out: &[u8], trailing: bool, k: usize, maxseg: usize) -> bool {
    let absolute = oldp.first() == Some(&b'/');
    let l = SegList::of(&split_path(oldp));
    let mut want = normalize_list(oldp, &l, absolute);
    if trailing && l.n > 0 && want.n > 0 {
        let last = seg(oldp, l.r[l.n - 1]);
        if is_dot(last) || is_dotdot(last) {
            want.push((0, 0));
        }
    }
    (plain_rendering_ok(oldp, &want, absolute) && rendering_eq_k(out, prefix, oldp, &want, absolute, false, suffix, k, maxseg))
        || (shield_permitted(oldp, &want) && rendering_eq_k(out, prefix, oldp, &want, absolute, true, suffix, k, maxseg))
}

fn normalized_copy<const N: usize>() {
    let t = Text::<N>::any();
    let b = t.bytes();
    assume(uri::Path::new(b).is_ok());
    let p = unsafe { uri::Path::new_unchecked(b) };
    let r = p.normalized();
    let out = r.as_bytes();
    assert!(result_is_expected(b"", b, b"", out, true, N + 3, N + 2), "C09: normalized() is not the RFC 5.2.4 / Errata 4547 rendering");
    assert!(tables::t_uri_path_valid_k(out, N + 3), "C04/C09: normalized() is not a valid path");
    cover!(out.len() < b.len(), "shorter after normalisation");
    cover!(out.last() == Some(&b'/') && b.last() == Some(&b'.'), "trailing '/' left by a final dot segment");
    forget(r);
}

// @h prop=C09 tier=thorough kind=check timeout=3600 mem=34 bound="uri::Path text <= 3 bytes" encodes="PathImpl::normalized;PathMutImpl::{symbolic_push,push,pop};to_path_buf"
#[cfg_attr(kani, kani::proof)]
#[cfg_attr(kani, kani::unwind(8))]
#[cfg_attr(kani, kani::stub(std::vec::Vec::resize, crate::stubs::vec_resize))]
#[cfg_attr(kani, kani::stub(<[u8]>::to_vec, crate::stubs::slice_to_vec))]
pub fn c09_normalized_copy_n3() {
    normalized_copy::<3>()
}

fn normalize_in_place<const N: usize>() {
    let t = Text::<N>::any();
    let b = t.bytes();
    assume(uri::Path::new(b).is_ok());
    let mut x = unsafe { uri::PathBuf::new_unchecked(vec_cap::<12>(b)) };
    x.normalize();
    let out = x.as_bytes();
    assert!(result_is_expected(b"", b, b"", out, false, N + 3, N + 2), "C09: normalize() did not rewrite the path to the RFC 5.2.4 / Errata 4547 sequence");
    assert!(tables::t_uri_path_valid_k(out, N + 3), "C04/C09: normalize() left an invalid path");
    cover!(out.len() + 3 <= b.len(), "at least three bytes removed");
    forget(x);
}

// @h prop=C09,C04 tier=thorough kind=check timeout=3600 mem=34 bound="uri::PathBuf text <= 3 bytes" encodes="PathMutImpl::normalize;NormalizedSegmentsImpl::new;SmallVec<[u8;512]> push/extend_from_slice (stubbed, spill asserted unreachable);utils::replace"
#[cfg_attr(kani, kani::proof)]
#[cfg_attr(kani, kani::unwind(8))]
#[cfg_attr(kani, kani::stub(std::vec::Vec::resize, crate::stubs::vec_resize))]
#[cfg_attr(kani, kani::stub(smallvec::SmallVec::try_grow, crate::stubs::sv_try_grow))]
#[cfg_attr(kani, kani::stub(smallvec::SmallVec::push, crate::stubs::sv_push))]
#[cfg_attr(kani, kani::stub(smallvec::SmallVec::extend_from_slice, crate::stubs::sv_extend_from_slice))]
pub fn c09_normalize_in_place_n3() {
    normalize_in_place::<3>()
}

/// Normalising the path of a URI reference never alters scheme, authority,
/// query or fragment and leaves a valid reference.
fn normalize_embedded<const N: usize>() {
    let t = Text::<N>::any();
    let b = t.bytes();
    assume(tables::t_uri_uriref_valid_k(b, N));
    let before = split_ref(b);
    let cb = comps_of(b, &before);
    let mut x = unsafe { UriRefBuf::new_unchecked(vec_cap::<12>(b)) };
    x.path_mut().normalize();
    let out = x.as_bytes();
    // scheme, authority, query and fragment byte-identical, path = the expected rendering
    assert!(
        result_is_expected(&b[..before.path.0], cb.path, &b[before.path.1..], out, false, N + 3, N + 2),
        "C09: normalising the embedded path changed something else, or the path is not the expected sequence"
    );
    assert!(tables::t_uri_uriref_valid_k(out, N + 3), "C04/C09: normalize() left an invalid URI reference");
    cover!(cb.scheme.is_some() && out.len() < b.len(), "with a scheme, path got shorter");
    cover!(cb.authority.is_some() && out.len() < b.len(), "with an authority, path got shorter");
    cover!(out.len() > b.len(), "a shield was inserted");
    forget(x);
}

// @h prop=C09,C04 tier=thorough kind=check timeout=3600 mem=34 bound="UriRefBuf text <= 4 bytes" encodes="RiRefBufImpl::path_mut;PathMutImpl::normalize (embedded);utils::replace"
#[cfg_attr(kani, kani::proof)]
#[cfg_attr(kani, kani::unwind(9))]
#[cfg_attr(kani, kani::stub(std::vec::Vec::resize, crate::stubs::vec_resize))]
#[cfg_attr(kani, kani::stub(smallvec::SmallVec::try_grow, crate::stubs::sv_try_grow))]
#[cfg_attr(kani, kani::stub(smallvec::SmallVec::push, crate::stubs::sv_push))]
#[cfg_attr(kani, kani::stub(smallvec::SmallVec::extend_from_slice, crate::stubs::sv_extend_from_slice))]
pub fn c09_normalize_embedded_n4() {
    normalize_embedded::<4>()
}

fn iri_normalized_segments<const N: usize>() {
    let t = Text::<N>::any();
    let b = t.bytes();
    assume(tables::t_iri_path_valid_k(b, N));
    let p = unsafe { iri::Path::new_unchecked(as_str(b)) };
    let l = SegList::of(&split_path(b));
    let want = normalize_list(b, &l, b.first() == Some(&b'/'));
    let mut it = p.normalized_segments();
    assert!(it.len() == want.n, "C09: iri normalized_segments().len()");
    let mut i = 0;
    while i < want.n {
        match it.next() {
            Some(s) => assert!(is_subslice(b, s.as_bytes(), want.r[i].0, want.r[i].1), "C09: iri normalized segment differs from the oracle"),
            None => panic!("C09: iri normalized_segments ended early"),
        }
        i += 1;
    }
    assert!(it.next().is_none());
    cover!(b.len() >= 4 && b[0] >= 0xE0 && want.n < l.n, "multi-byte segment and a removed segment");
    forget(it);
}

// @h prop=C09 tier=thorough kind=check timeout=3000 mem=24 bound="iri::Path text <= 5 bytes (UTF-8)" encodes="NormalizedSegmentsImpl for iri::Path"
#[cfg_attr(kani, kani::proof)]
#[cfg_attr(kani, kani::unwind(8))]
#[cfg_attr(kani, kani::stub(smallvec::SmallVec::try_grow, crate::stubs::sv_try_grow))]
#[cfg_attr(kani, kani::stub(smallvec::SmallVec::push, crate::stubs::sv_push))]
pub fn c09_iri_normalized_segments_n5() {
    iri_normalized_segments::<5>()
}
