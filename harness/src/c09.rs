//! C09 — dot-segment normalisation follows RFC 3986 5.2.4 and Errata 4547.
//! SmallVec spill paths (more than 16 segments / 512 bytes) are asserted
//! unreachable by the stubs, hence NOT verified: outside the claim.
use crate::oracle::{
    comps_of, is_dot, is_dotdot, lists_equal, lists_equal_mod_shield, normalize_list, seg, split_path, split_ref, strip_shield, SegList,
};
use crate::sym::{as_str, assume, bytes_eq, is_subslice, vec_of, Text};
use crate::{cover, tables};
use iref_core::{iri, uri, UriRefBuf};
use std::mem::forget;

fn shape_covers(b: &[u8], l: &SegList, n: &SegList) {
    cover!(l.n >= 3 && n.n < l.n, "at least three segments, some removed");
    cover!(n.n >= 1 && is_dotdot(seg(b, n.r[0])), "a leading '..' is kept (relative path)");
    cover!(b.first() == Some(&b'/') && l.n >= 2 && n.n == 0, "everything removed at the root");
}

/// The normalized-segment iterator yields exactly the oracle sequence, each
/// item a sub-slice of the input, and reports its length exactly.
fn normalized_segments<const N: usize>() {
    let t = Text::<N>::any();
    let b = t.bytes();
    assume(uri::Path::new(b).is_ok());
    let p = unsafe { uri::Path::new_unchecked(b) };
    let l = SegList::of(&split_path(b));
    let want = normalize_list(b, &l, b.first() == Some(&b'/'));
    let mut it = p.normalized_segments();
    assert!(it.len() == want.n, "C12/C09: normalized_segments().len() is not the number of normalized segments");
    let mut i = 0;
    while i < want.n {
        match it.next() {
            Some(s) => assert!(is_subslice(b, s.as_bytes(), want.r[i].0, want.r[i].1), "C09: normalized segment differs from RFC 3986 5.2.4 / Errata 4547"),
            None => panic!("C09: normalized_segments ended early"),
        }
        i += 1;
    }
    assert!(it.next().is_none(), "C09: normalized_segments yields more than the normalized sequence");
    shape_covers(b, &l, &want);
    forget(it);
}

// @h prop=C09,C12 tier=quick kind=check timeout=2400 mem=20 bound="uri::Path text <= 5 bytes (at most 16 segments / no SmallVec spill)" encodes="NormalizedSegmentsImpl::new;PathImpl::normalized_segments;smallvec IntoIter (SmallVec::push/try_grow stubbed: spill asserted unreachable)"
#[cfg_attr(kani, kani::proof)]
#[cfg_attr(kani, kani::unwind(8))]
#[cfg_attr(kani, kani::stub(smallvec::SmallVec::try_grow, crate::stubs::sv_try_grow))]
#[cfg_attr(kani, kani::stub(smallvec::SmallVec::push, crate::stubs::sv_push))]
pub fn c09_normalized_segments_n5() {
    normalized_segments::<5>()
}

/// Deeper, over a dot-segment alphabet: every byte is one of `.`, `/`, `a`
/// (all dot/parent/empty/ordinary segment mixtures up to the length bound).
fn normalized_segments_dots<const N: usize>() {
    let t = Text::<N>::any();
    let b = t.bytes();
    let mut i = 0;
    while i < b.len() {
        assume(b[i] == b'.' || b[i] == b'/' || b[i] == b'a');
        i += 1;
    }
    let p = unsafe { uri::Path::new_unchecked(b) };
    let l = SegList::of(&split_path(b));
    let want = normalize_list(b, &l, b.first() == Some(&b'/'));
    let mut it = p.normalized_segments();
    assert!(it.len() == want.n, "C12/C09: normalized_segments().len() is not the number of normalized segments");
    let mut i = 0;
    while i < want.n {
        match it.next() {
            Some(s) => assert!(is_subslice(b, s.as_bytes(), want.r[i].0, want.r[i].1), "C09: normalized segment differs from RFC 3986 5.2.4 / Errata 4547"),
            None => panic!("C09: normalized_segments ended early"),
        }
        i += 1;
    }
    assert!(it.next().is_none(), "C09: normalized_segments yields more than the normalized sequence");
    cover!(l.n >= 3 && want.n == 1 && is_dotdot(seg(b, want.r[0])), "'..' then a segment then '..' collapses to '..'");
    cover!(want.n >= 2 && is_dotdot(seg(b, want.r[1])), "two leading '..' kept");
    forget(it);
}

// @h prop=C09,C12 tier=quick kind=check timeout=3000 mem=24 bound="paths <= 7 bytes over the alphabet {'.','/','a'}" encodes="NormalizedSegmentsImpl::new (stack discipline for '..' after '..', after a segment, at the root)"
#[cfg_attr(kani, kani::proof)]
#[cfg_attr(kani, kani::unwind(10))]
#[cfg_attr(kani, kani::stub(smallvec::SmallVec::try_grow, crate::stubs::sv_try_grow))]
#[cfg_attr(kani, kani::stub(smallvec::SmallVec::push, crate::stubs::sv_push))]
pub fn c09_normalized_segments_dots_n7() {
    normalized_segments_dots::<7>()
}

// @h prop=C09,C12 tier=thorough kind=check timeout=5400 mem=26 bound="paths <= 10 bytes over the alphabet {'.','/','a'}" encodes="same as c09_normalized_segments_dots_n7"
#[cfg_attr(kani, kani::proof)]
#[cfg_attr(kani, kani::unwind(13))]
#[cfg_attr(kani, kani::stub(smallvec::SmallVec::try_grow, crate::stubs::sv_try_grow))]
#[cfg_attr(kani, kani::stub(smallvec::SmallVec::push, crate::stubs::sv_push))]
pub fn c09_normalized_segments_dots_n10() {
    normalized_segments_dots::<10>()
}

// @h prop=C09,C12 tier=thorough kind=check timeout=5400 mem=26 bound="uri::Path text <= 6 bytes" encodes="same as c09_normalized_segments_n5"
#[cfg_attr(kani, kani::proof)]
#[cfg_attr(kani, kani::unwind(9))]
#[cfg_attr(kani, kani::stub(smallvec::SmallVec::try_grow, crate::stubs::sv_try_grow))]
#[cfg_attr(kani, kani::stub(smallvec::SmallVec::push, crate::stubs::sv_push))]
pub fn c09_normalized_segments_n6() {
    normalized_segments::<6>()
}

/// The result of a normalisation, as text: its sequence is `want` (plus the
/// trailing empty segment when `trailing`), modulo the shield; it contains no
/// removable dot segment any more (idempotence); absolute/relative preserved.
fn check_result(b: &[u8], out: &[u8], trailing: bool, what_abs: bool) {
    let l = SegList::of(&split_path(b));
    let mut want = normalize_list(b, &l, what_abs);
    if trailing && l.n > 0 && want.n > 0 {
        let last = seg(b, l.r[l.n - 1]);
        if is_dot(last) || is_dotdot(last) {
            want.push((0, 0));
        }
    }
    let got = SegList::of(&split_path(out));
    assert!(lists_equal_mod_shield(b, &want, out, &got), "C09: normalised path is not the RFC 5.2.4 / Errata 4547 sequence");
    // idempotence: the result's sequence equals (modulo the shield) a sequence
    // that contains no removable dot segment, so normalising it again is the
    // identity by the oracle's own definition; no second pass is executed.
    assert!(out.is_empty() && b.is_empty() || (out.first() == Some(&b'/')) == what_abs || (out.is_empty() && !what_abs), "C09: absolute/relative not preserved");
}

fn normalized_copy<const N: usize>() {
    let t = Text::<N>::any();
    let b = t.bytes();
    assume(uri::Path::new(b).is_ok());
    let p = unsafe { uri::Path::new_unchecked(b) };
    let r = p.normalized();
    let out = r.as_bytes();
    assert!(tables::t_uri_path_valid_k(out, N + 3), "C04/C09: normalized() is not a valid path");
    check_result(b, out, true, b.first() == Some(&b'/'));
    cover!(out.len() < b.len(), "shorter after normalisation");
    cover!(out.last() == Some(&b'/') && b.last() == Some(&b'.'), "trailing '/' left by a final dot segment");
    forget(r);
}

// @h prop=C09 tier=quick kind=check timeout=2400 mem=20 bound="uri::Path text <= 5 bytes" encodes="PathImpl::normalized;PathMutImpl::{symbolic_push,push,pop};to_path_buf"
#[cfg_attr(kani, kani::proof)]
#[cfg_attr(kani, kani::unwind(12))]
#[cfg_attr(kani, kani::stub(std::vec::Vec::resize, crate::stubs::vec_resize))]
#[cfg_attr(kani, kani::stub(<[u8]>::to_vec, crate::stubs::slice_to_vec))]
pub fn c09_normalized_copy_n5() {
    normalized_copy::<5>()
}

fn normalize_in_place<const N: usize>() {
    let t = Text::<N>::any();
    let b = t.bytes();
    assume(uri::Path::new(b).is_ok());
    let mut x = unsafe { uri::PathBuf::new_unchecked(vec_of(b)) };
    x.normalize();
    let out = x.as_bytes();
    assert!(tables::t_uri_path_valid_k(out, N + 3), "C04/C09: normalize() left an invalid path");
    check_result(b, out, false, b.first() == Some(&b'/'));
    cover!(out.len() + 3 <= b.len(), "at least three bytes removed");
    forget(x);
}

// @h prop=C09,C04 tier=quick kind=check timeout=3000 mem=24 bound="uri::PathBuf text <= 5 bytes" encodes="PathMutImpl::normalize;NormalizedSegmentsImpl::new;SmallVec<[u8;512]> push/extend_from_slice (stubbed, spill asserted unreachable);utils::replace"
#[cfg_attr(kani, kani::proof)]
#[cfg_attr(kani, kani::unwind(8))]
#[cfg_attr(kani, kani::stub(std::vec::Vec::resize, crate::stubs::vec_resize))]
#[cfg_attr(kani, kani::stub(smallvec::SmallVec::try_grow, crate::stubs::sv_try_grow))]
#[cfg_attr(kani, kani::stub(smallvec::SmallVec::push, crate::stubs::sv_push))]
#[cfg_attr(kani, kani::stub(smallvec::SmallVec::extend_from_slice, crate::stubs::sv_extend_from_slice))]
pub fn c09_normalize_in_place_n5() {
    normalize_in_place::<5>()
}

/// Normalising the path of a URI reference never alters scheme, authority,
/// query or fragment and leaves a valid reference.
fn normalize_embedded<const N: usize>() {
    let t = Text::<N>::any();
    let b = t.bytes();
    assume(tables::t_uri_uriref_valid_k(b, N));
    let before = split_ref(b);
    let cb = comps_of(b, &before);
    let mut x = unsafe { UriRefBuf::new_unchecked(vec_of(b)) };
    x.path_mut().normalize();
    let out = x.as_bytes();
    assert!(tables::t_uri_uriref_valid_k(out, N + 3), "C04/C09: normalize() left an invalid URI reference");
    let after = split_ref(out);
    let ca = comps_of(out, &after);
    macro_rules! same_opt {
        ($p:expr, $q:expr) => {
            match ($p, $q) {
                (None, None) => true,
                (Some(u), Some(v)) => bytes_eq(u, v),
                _ => false,
            }
        };
    }
    assert!(same_opt!(cb.scheme, ca.scheme), "C09: normalising the path changed the scheme");
    assert!(same_opt!(cb.authority, ca.authority), "C09: normalising the path changed the authority");
    assert!(same_opt!(cb.query, ca.query), "C09: normalising the path changed the query");
    assert!(same_opt!(cb.fragment, ca.fragment), "C09: normalising the path changed the fragment");
    check_result(cb.path, ca.path, false, cb.path.first() == Some(&b'/'));
    cover!(cb.scheme.is_some() && ca.path.len() < cb.path.len(), "with a scheme, path got shorter");
    cover!(cb.authority.is_some() && ca.path.len() < cb.path.len(), "with an authority, path got shorter");
    forget(x);
}

// @h prop=C09,C04:thorough tier=quick kind=check timeout=3000 mem=26 bound="UriRefBuf text <= 5 bytes" encodes="RiRefBufImpl::path_mut;PathMutImpl::normalize (embedded);utils::replace"
#[cfg_attr(kani, kani::proof)]
#[cfg_attr(kani, kani::unwind(8))]
#[cfg_attr(kani, kani::stub(std::vec::Vec::resize, crate::stubs::vec_resize))]
#[cfg_attr(kani, kani::stub(smallvec::SmallVec::try_grow, crate::stubs::sv_try_grow))]
#[cfg_attr(kani, kani::stub(smallvec::SmallVec::push, crate::stubs::sv_push))]
#[cfg_attr(kani, kani::stub(smallvec::SmallVec::extend_from_slice, crate::stubs::sv_extend_from_slice))]
pub fn c09_normalize_embedded_n5() {
    normalize_embedded::<5>()
}

fn iri_normalized_segments<const N: usize>() {
    let t = Text::<N>::any();
    let b = t.bytes();
    assume(tables::t_iri_path_valid_k(b, N));
    let p = unsafe { iri::Path::new_unchecked(as_str(b)) };
    let l = SegList::of(&split_path(b));
    let want = normalize_list(b, &l, b.first() == Some(&b'/'));
    let mut it = p.normalized_segments();
    assert!(it.len() == want.n, "C09: iri normalized_segments().len()");
    let mut i = 0;
    while i < want.n {
        match it.next() {
            Some(s) => assert!(is_subslice(b, s.as_bytes(), want.r[i].0, want.r[i].1), "C09: iri normalized segment differs from the oracle"),
            None => panic!("C09: iri normalized_segments ended early"),
        }
        i += 1;
    }
    assert!(it.next().is_none());
    cover!(b.len() >= 4 && b[0] >= 0xE0 && want.n < l.n, "multi-byte segment and a removed segment");
    forget(it);
}

// @h prop=C09 tier=thorough kind=check timeout=3000 mem=24 bound="iri::Path text <= 5 bytes (UTF-8)" encodes="NormalizedSegmentsImpl for iri::Path"
#[cfg_attr(kani, kani::proof)]
#[cfg_attr(kani, kani::unwind(8))]
#[cfg_attr(kani, kani::stub(smallvec::SmallVec::try_grow, crate::stubs::sv_try_grow))]
#[cfg_attr(kani, kani::stub(smallvec::SmallVec::push, crate::stubs::sv_push))]
pub fn c09_iri_normalized_segments_n5() {
    iri_normalized_segments::<5>()
}
