//! Harnesses for the solver-based checks of iref (see /verif/DESIGN.md).
#![cfg_attr(kani, feature(allocator_api))]
#![allow(clippy::all, unused_imports, dead_code)]

pub mod gen;
pub mod oracle;
pub mod probe;
pub mod serde_drv;
pub mod sym;
#[cfg(kani)]
pub mod stubs;

pub mod adapt;
pub mod c02;
pub mod c01;
pub mod c03;
pub mod c05;
pub mod c07;
pub mod c08;
pub mod c09;
pub mod c10;
pub mod c11;
pub mod c12;
pub mod c13;
pub mod c14;
pub mod c16;
pub mod c18;
pub mod c19;
pub mod c20;
pub mod kf;

pub use gen::tables;
