//! Harnesses for the solver-based checks of iref (see /verif/DESIGN.md).
#![cfg_attr(kani, feature(allocator_api))]
#![allow(clippy::all, unused_imports, dead_code)]

pub mod gen;
pub mod oracle;
pub mod sym;
#[cfg(kani)]
pub mod stubs;

pub mod adapt;
pub mod c02;
pub mod c03;
pub mod c12;

pub use gen::tables;
