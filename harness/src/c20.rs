//! C20 — borrowed parsing and component access perform no heap allocation.
//! (Sub-slice / ordering / non-overlap: the pointer-range assertions of the
//! C02, C03 and C12 harnesses, which are also listed under C20.)
//!
//! Under Kani `std::alloc::{alloc, alloc_zeroed, realloc}` are replaced by a
//! panic, so the solver shows that *no path* through the calls below reaches
//! the allocator, for every input within the bound.
use crate::sym::{as_str, assume, no_alloc_begin, no_alloc_end, Text};
use crate::{cover, tables};
use iref_core::{iri, uri, Iri, IriRef, Uri, UriRef};

fn touch(b: &[u8]) -> usize {
    b.len()
}

macro_rules! ref_accessors {
    ($x:expr) => {{
        let x = $x;
        let mut acc = 0usize;
        let p = x.parts();
        acc += touch(p.path.as_bytes());
        if let Some(a) = x.authority() {
            let ap = a.parts();
            acc += touch(ap.host.as_bytes());
            acc += touch(a.host().as_bytes());
            if let Some(u) = a.user_info() {
                acc += touch(u.as_bytes())
            }
            if let Some(q) = a.port() {
                acc += touch(q.as_bytes())
            }
        }
        if let Some(q) = x.query() {
            acc += touch(q.as_bytes())
        }
        if let Some(f) = x.fragment() {
            acc += touch(f.as_bytes())
        }
        acc += touch(x.base().as_bytes());
        let path = x.path();
        acc += path.segment_count();
        let mut it = path.segments();
        while let Some(s) = it.next_back() {
            acc += touch(s.as_bytes());
        }
        if let Some(s) = path.first() {
            acc += touch(s.as_bytes())
        }
        if let Some(s) = path.last() {
            acc += touch(s.as_bytes())
        }
        if let Some(s) = path.file_name() {
            acc += touch(s.as_bytes())
        }
        acc += touch(path.directory().as_bytes());
        if let Some(s) = path.parent() {
            acc += touch(s.as_bytes())
        }
        acc += touch(path.parent_or_empty().as_bytes());
        acc += path.is_empty() as usize + path.is_absolute() as usize;
        acc
    }};
}

fn uriref_noalloc<const N: usize>() {
    let t = Text::<N>::any();
    let b = t.bytes();
    no_alloc_begin();
    // the real constructor (its generated validate is replaced by the table twin of the same automaton)
    let r = UriRef::new(b);
    if let Ok(x) = r {
        assert!(x.as_bytes().as_ptr() == b.as_ptr() && x.as_bytes().len() == b.len(), "the parsed value does not occupy exactly the caller's input");
        let mut acc = ref_accessors!(x);
        if let Some(s) = x.scheme() {
            acc += touch(s.as_bytes())
        }
        if let Some(u) = x.as_uri() {
            acc += touch(u.scheme().as_bytes());
            acc += touch(u.parts().path.as_bytes());
        }
        assert!(acc < 1000);
        cover!(x.authority().is_some() && x.path().segment_count() >= 2, "authority and two segments");
    }
    no_alloc_end();
    cover!(r.is_err(), "rejected input (error path does not allocate either)");
}

// @h prop=C20 tier=quick kind=check timeout=2400 bound="any byte string <= 9 bytes" encodes="UriRef::new;every read-only accessor of UriRef/Uri/Authority/Path incl. base(), segments() (allocator entry points -> panic)"
#[cfg_attr(kani, kani::proof)]
#[cfg_attr(kani, kani::unwind(12))]
#[cfg_attr(kani, kani::stub(std::alloc::alloc, crate::stubs::no_alloc))]
#[cfg_attr(kani, kani::stub(std::alloc::alloc_zeroed, crate::stubs::no_alloc))]
#[cfg_attr(kani, kani::stub(std::alloc::realloc, crate::stubs::no_realloc))]
#[cfg_attr(kani, kani::stub(iref_core::uri::UriRef::validate, crate::tables::t_uri_uriref_validate_iter))]
pub fn c20_uriref_noalloc_n9() {
    uriref_noalloc::<9>()
}

fn iriref_noalloc<const N: usize>() {
    let t = Text::<N>::any();
    let b = t.bytes();
    assume(tables::t_iri_iriref_valid_k(b, N));
    no_alloc_begin();
    let x = unsafe { IriRef::new_unchecked(as_str(b)) };
    let mut acc = ref_accessors!(x);
    if let Some(s) = x.scheme() {
        acc += touch(s.as_bytes())
    }
    if let Some(u) = x.as_iri() {
        acc += touch(u.scheme().as_bytes());
        acc += touch(u.parts().path.as_bytes());
    }
    assert!(acc < 1000);
    no_alloc_end();
    cover!(x.authority().is_some() && x.path().segment_count() >= 2, "authority and two segments");
}

// @h prop=C20 tier=quick kind=check timeout=2400 bound="IriRef text <= 8 bytes (UTF-8)" encodes="every read-only accessor of IriRef/Iri/iri::Authority/iri::Path (allocator entry points -> panic)"
#[cfg_attr(kani, kani::proof)]
#[cfg_attr(kani, kani::unwind(11))]
#[cfg_attr(kani, kani::stub(std::alloc::alloc, crate::stubs::no_alloc))]
#[cfg_attr(kani, kani::stub(std::alloc::alloc_zeroed, crate::stubs::no_alloc))]
#[cfg_attr(kani, kani::stub(std::alloc::realloc, crate::stubs::no_realloc))]
pub fn c20_iriref_noalloc_n8() {
    iriref_noalloc::<8>()
}

/// Parsing the small component types with their *real* generated validate.
fn components_noalloc<const N: usize>() {
    let t = Text::<N>::any();
    let b = t.bytes();
    no_alloc_begin();
    let mut acc = 0usize;
    acc += uri::Scheme::new(b).is_ok() as usize;
    acc += uri::Segment::new(b).is_ok() as usize;
    acc += uri::Path::new(b).is_ok() as usize;
    acc += uri::Query::new(b).is_ok() as usize;
    acc += uri::Fragment::new(b).is_ok() as usize;
    acc += uri::UserInfo::new(b).is_ok() as usize;
    acc += uri::Port::new(b).is_ok() as usize;
    no_alloc_end();
    cover!(acc >= 5, "accepted by at least five component types");
    cover!(acc == 0, "rejected by all");
}

// @h prop=C20 tier=quick kind=check bound="any byte string <= 6 bytes" encodes="Scheme/Segment/Path/Query/Fragment/UserInfo/Port::new with the real generated validate (allocator entry points -> panic)"
#[cfg_attr(kani, kani::proof)]
#[cfg_attr(kani, kani::unwind(8))]
#[cfg_attr(kani, kani::stub(std::alloc::alloc, crate::stubs::no_alloc))]
#[cfg_attr(kani, kani::stub(std::alloc::alloc_zeroed, crate::stubs::no_alloc))]
#[cfg_attr(kani, kani::stub(std::alloc::realloc, crate::stubs::no_realloc))]
pub fn c20_components_noalloc_n6() {
    components_noalloc::<6>()
}

// @h prop=C20 tier=quick kind=witness expect="heap allocation" bound="detector sanity" encodes="Vec allocation under the same allocator stubs must be reported"
#[cfg_attr(kani, kani::proof)]
#[cfg_attr(kani, kani::stub(std::alloc::alloc, crate::stubs::no_alloc))]
#[cfg_attr(kani, kani::stub(std::alloc::alloc_zeroed, crate::stubs::no_alloc))]
#[cfg_attr(kani, kani::stub(std::alloc::realloc, crate::stubs::no_realloc))]
pub fn c20_detector_witness() {
    no_alloc_begin();
    let v = vec![crate::sym::any_u8(), 2, 3];
    assert!(v.len() == 3);
    no_alloc_end();
}
