//! C20 — borrowed parsing and component access perform no heap allocation.
//! (Sub-slice / ordering / non-overlap: the pointer-range assertions of the
//! C02, C03 and C12 harnesses, which are also listed under C20.)
//!
//! Under Kani `std::alloc::{alloc, alloc_zeroed, realloc}` are replaced by a
//! panic, so the solver shows that *no path* through the calls below reaches
//! the allocator, for every input within the bound.
use crate::sym::{as_str, assume, no_alloc_begin, no_alloc_end, Text};
use crate::{cover, tables};
use iref_core::{iri, uri, Iri, IriRef, Uri, UriRef};

fn touch(b: &[u8]) -> usize {
    b.len()
}

/// Parsing and the five component accessors, parts(), base(), as_uri().
fn uriref_noalloc<const N: usize>() {
    let t = Text::<N>::any();
    let b = t.bytes();
    no_alloc_begin();
    // the real constructor (its generated validate is replaced by the table twin of the same automaton)
    let r = UriRef::new(b);
    if let Ok(x) = r {
        assert!(x.as_bytes().as_ptr() == b.as_ptr() && x.as_bytes().len() == b.len(), "the parsed value does not occupy exactly the caller's input");
        let mut acc = 0usize;
        let p = x.parts();
        acc += touch(p.path.as_bytes());
        if let Some(s) = x.scheme() {
            acc += touch(s.as_bytes())
        }
        if let Some(a) = x.authority() {
            acc += touch(a.as_bytes())
        }
        acc += touch(x.path().as_bytes());
        if let Some(q) = x.query() {
            acc += touch(q.as_bytes())
        }
        if let Some(f) = x.fragment() {
            acc += touch(f.as_bytes())
        }
        acc += touch(x.base().as_bytes());
        if let Some(u) = x.as_uri() {
            acc += touch(u.scheme().as_bytes());
            acc += touch(u.parts().path.as_bytes());
            acc += touch(u.base().as_bytes());
        }
        assert!(acc < 1000);
        cover!(x.authority().is_some() && x.query().is_some(), "authority and query present");
    }
    no_alloc_end();
    cover!(r.is_err(), "rejected input (error path does not allocate either)");
}

// @h prop=C20 tier=quick kind=check timeout=2400 mem=16 bound="any byte string <= 8 bytes" encodes="UriRef::new;UriRef::{parts,scheme,authority,path,query,fragment,base,as_uri};Uri::{scheme,parts,base} (allocator entry points -> panic)"
#[cfg_attr(kani, kani::proof)]
#[cfg_attr(kani, kani::unwind(11))]
#[cfg_attr(kani, kani::stub(std::alloc::alloc, crate::stubs::no_alloc))]
#[cfg_attr(kani, kani::stub(std::alloc::alloc_zeroed, crate::stubs::no_alloc))]
#[cfg_attr(kani, kani::stub(std::alloc::realloc, crate::stubs::no_realloc))]
#[cfg_attr(kani, kani::stub(iref_core::uri::UriRef::validate, crate::tables::t_uri_uriref_validate_iter))]
pub fn c20_uriref_noalloc_n8() {
    uriref_noalloc::<8>()
}

/// The authority accessors.
fn authority_noalloc<const N: usize>() {
    let t = Text::<N>::any();
    let b = t.bytes();
    assume(tables::t_uri_authority_valid_k(b, N));
    no_alloc_begin();
    let a = unsafe { uri::Authority::new_unchecked(b) };
    let mut acc = 0usize;
    let ap = a.parts();
    acc += touch(ap.host.as_bytes());
    acc += touch(a.host().as_bytes());
    if let Some(u) = a.user_info() {
        acc += touch(u.as_bytes())
    }
    if let Some(q) = a.port() {
        acc += touch(q.as_bytes())
    }
    assert!(acc < 1000);
    no_alloc_end();
    cover!(ap.user_info.is_some() && ap.port.is_some(), "user info and port present");
}

// @h prop=C20 tier=quick kind=check timeout=2400 mem=12 bound="uri::Authority text <= 8 bytes" encodes="uri::Authority::{parts,host,user_info,port} (allocator entry points -> panic)"
#[cfg_attr(kani, kani::proof)]
#[cfg_attr(kani, kani::unwind(10))]
#[cfg_attr(kani, kani::stub(std::alloc::alloc, crate::stubs::no_alloc))]
#[cfg_attr(kani, kani::stub(std::alloc::alloc_zeroed, crate::stubs::no_alloc))]
#[cfg_attr(kani, kani::stub(std::alloc::realloc, crate::stubs::no_realloc))]
pub fn c20_authority_noalloc_n8() {
    authority_noalloc::<8>()
}

/// The path queries and the segment iterator.
fn path_noalloc<const N: usize>() {
    let t = Text::<N>::any();
    let b = t.bytes();
    no_alloc_begin();
    let r = uri::Path::new(b);
    if let Ok(path) = r {
        let mut acc = 0usize;
        let mut it = path.segments();
        if let Some(s) = it.next() {
            acc += touch(s.as_bytes());
        }
        if let Some(s) = it.next_back() {
            acc += touch(s.as_bytes());
        }
        if let Some(s) = it.next() {
            acc += touch(s.as_bytes());
        }
        acc += path.segment_count();
        if let Some(s) = path.first() {
            acc += touch(s.as_bytes())
        }
        if let Some(s) = path.last() {
            acc += touch(s.as_bytes())
        }
        if let Some(s) = path.file_name() {
            acc += touch(s.as_bytes())
        }
        acc += touch(path.directory().as_bytes());
        if let Some(s) = path.parent() {
            acc += touch(s.as_bytes())
        }
        acc += touch(path.parent_or_empty().as_bytes());
        acc += path.is_empty() as usize + path.is_absolute() as usize;
        assert!(acc < 1000);
        cover!(path.segment_count() >= 3, "three or more segments");
    }
    no_alloc_end();
}

// @h prop=C20 tier=quick kind=check timeout=2400 mem=12 bound="any byte string <= 6 bytes" encodes="uri::Path::{new,segments (next/next_back),segment_count,first,last,file_name,directory,parent,parent_or_empty,is_empty,is_absolute} (allocator entry points -> panic)"
#[cfg_attr(kani, kani::proof)]
#[cfg_attr(kani, kani::unwind(9))]
#[cfg_attr(kani, kani::stub(std::alloc::alloc, crate::stubs::no_alloc))]
#[cfg_attr(kani, kani::stub(std::alloc::alloc_zeroed, crate::stubs::no_alloc))]
#[cfg_attr(kani, kani::stub(std::alloc::realloc, crate::stubs::no_realloc))]
pub fn c20_path_noalloc_n6() {
    path_noalloc::<6>()
}

fn iriref_noalloc<const N: usize>() {
    let t = Text::<N>::any();
    let b = t.bytes();
    assume(tables::t_iri_iriref_valid_k(b, N));
    no_alloc_begin();
    let x = unsafe { IriRef::new_unchecked(as_str(b)) };
    let mut acc = 0usize;
    let p = x.parts();
    acc += touch(p.path.as_bytes());
    if let Some(s) = x.scheme() {
        acc += touch(s.as_bytes())
    }
    if let Some(a) = x.authority() {
        acc += touch(a.host().as_bytes());
        acc += touch(a.parts().host.as_bytes());
    }
    if let Some(q) = x.query() {
        acc += touch(q.as_bytes())
    }
    if let Some(f) = x.fragment() {
        acc += touch(f.as_bytes())
    }
    acc += touch(x.base().as_bytes());
    let path = x.path();
    if let Some(s) = path.file_name() {
        acc += touch(s.as_bytes())
    }
    if let Some(s) = path.parent() {
        acc += touch(s.as_bytes())
    }
    assert!(acc < 1000);
    no_alloc_end();
    cover!(x.authority().is_some() && b.len() >= 5 && b[2] >= 0xC2, "authority starting with a multi-byte scalar");
}

// @h prop=C20 tier=quick kind=check timeout=2400 mem=16 bound="IriRef text <= 7 bytes (UTF-8)" encodes="IriRef::{parts,scheme,authority,query,fragment,base};iri::Authority::{host,parts};iri::Path::{file_name,parent} (allocator entry points -> panic)"
#[cfg_attr(kani, kani::proof)]
#[cfg_attr(kani, kani::unwind(10))]
#[cfg_attr(kani, kani::stub(std::alloc::alloc, crate::stubs::no_alloc))]
#[cfg_attr(kani, kani::stub(std::alloc::alloc_zeroed, crate::stubs::no_alloc))]
#[cfg_attr(kani, kani::stub(std::alloc::realloc, crate::stubs::no_realloc))]
pub fn c20_iriref_noalloc_n7() {
    iriref_noalloc::<7>()
}

/// Parsing the small component types with their *real* generated validate.
fn components_noalloc<const N: usize>() {
    let t = Text::<N>::any();
    let b = t.bytes();
    no_alloc_begin();
    let mut acc = 0usize;
    acc += uri::Scheme::new(b).is_ok() as usize;
    acc += uri::Segment::new(b).is_ok() as usize;
    acc += uri::Path::new(b).is_ok() as usize;
    acc += uri::Query::new(b).is_ok() as usize;
    acc += uri::Fragment::new(b).is_ok() as usize;
    acc += uri::UserInfo::new(b).is_ok() as usize;
    acc += uri::Port::new(b).is_ok() as usize;
    no_alloc_end();
    cover!(acc >= 5, "accepted by at least five component types");
    cover!(acc == 0, "rejected by all");
}

// @h prop=C20 tier=quick kind=check bound="any byte string <= 6 bytes" encodes="Scheme/Segment/Path/Query/Fragment/UserInfo/Port::new with the real generated validate (allocator entry points -> panic)"
#[cfg_attr(kani, kani::proof)]
#[cfg_attr(kani, kani::unwind(8))]
#[cfg_attr(kani, kani::stub(std::alloc::alloc, crate::stubs::no_alloc))]
#[cfg_attr(kani, kani::stub(std::alloc::alloc_zeroed, crate::stubs::no_alloc))]
#[cfg_attr(kani, kani::stub(std::alloc::realloc, crate::stubs::no_realloc))]
pub fn c20_components_noalloc_n6() {
    components_noalloc::<6>()
}

// @h prop=C20 tier=quick kind=witness expect="heap allocation" bound="detector sanity" encodes="Vec allocation under the same allocator stubs must be reported"
#[cfg_attr(kani, kani::proof)]
#[cfg_attr(kani, kani::stub(std::alloc::alloc, crate::stubs::no_alloc))]
#[cfg_attr(kani, kani::stub(std::alloc::alloc_zeroed, crate::stubs::no_alloc))]
#[cfg_attr(kani, kani::stub(std::alloc::realloc, crate::stubs::no_realloc))]
pub fn c20_detector_witness() {
    no_alloc_begin();
    let v = vec![crate::sym::any_u8(), 2, 3];
    assert!(v.len() == 3);
    no_alloc_end();
}
