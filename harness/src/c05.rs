//! C05 / C04 — component setters change exactly the targeted component and
//! leave a well-formed buffer.  One step from an arbitrary valid state: any
//! table-valid text in a buffer of concrete capacity, one setter call with any
//! valid argument, then (C04) the text is valid for the same type and (C05)
//! it is exactly the RFC 5.3 recomposition of the expected components with the
//! three documented disambiguations.
use crate::oracle::{comps_of, concat_eq, recompose_pieces, split_ref, Comps};
use crate::sym::{any_bool, as_str, assume, bytes_eq, vec_cap, vec_of, Text};
use crate::{cover, tables};
use iref_core::{iri, uri, IriBuf, IriRefBuf, UriBuf, UriRefBuf};
use std::mem::forget;

#[derive(Clone, Copy, PartialEq, Eq)]
pub enum Which {
    Scheme,
    Authority,
    Path,
    Query,
    Fragment,
}

/// `out` is the recomposition of `b` with component `w` replaced by `new`
/// (None = removed).
fn is_expected(out: &[u8], b: &[u8], w: Which, new: Option<&[u8]>, slash_empty: bool, k: usize) -> bool {
    let s = split_ref(b);
    let mut c = comps_of(b, &s);
    match w {
        Which::Scheme => c.scheme = new,
        Which::Authority => c.authority = new,
        Which::Path => c.path = new.unwrap_or(b""),
        Which::Query => c.query = new,
        Which::Fragment => c.fragment = new,
    }
    concat_eq(out, &recompose_pieces(&c, slash_empty), k)
}

macro_rules! setter_body {
    ($fname:ident, $Buf:ty, $tablek:ident, $mkbuf:ident, $which:expr, $argvalid:expr, $call:expr, $optional:expr) => {
        fn $fname<const N: usize, const M: usize, const K: usize>() {
            let t = Text::<N>::any();
            let b = t.bytes();
            assume(tables::$tablek(b, N));
            let a = Text::<M>::any();
            let arg = a.bytes();
            let some = if $optional { any_bool() } else { true };
            if some {
                assume($argvalid(arg));
            }
            let mut x: $Buf = $mkbuf::<K>(b);
            $call(&mut x, if some { Some(arg) } else { None });
            let out = x.as_bytes();
            // (an empty path after an authority may stay empty or become "/")
            let new = if some { Some(arg) } else { None };
            assert!(
                is_expected(out, b, $which, new, true, K) || is_expected(out, b, $which, new, false, K),
                "C05: result differs from the recomposition of the expected components"
            );
            assert!(tables::$tablek(out, K), "C04: the buffer is no longer a valid value of its type after the setter");
            cover!(some && out.len() > b.len(), "the text grew");
            cover!(out.len() < b.len(), "the text shrank");
            forget(x);
        }
    };
}

fn mk_urirefbuf<const K: usize>(b: &[u8]) -> UriRefBuf {
    unsafe { UriRefBuf::new_unchecked(vec_cap::<K>(b)) }
}
fn mk_irirefbuf<const K: usize>(b: &[u8]) -> IriRefBuf {
    unsafe { IriRefBuf::new_unchecked(String::from_utf8_unchecked(vec_cap::<K>(b))) }
}
fn mk_uribuf<const K: usize>(b: &[u8]) -> UriBuf {
    unsafe { UriBuf::new_unchecked(vec_cap::<K>(b)) }
}
fn mk_iribuf<const K: usize>(b: &[u8]) -> IriBuf {
    unsafe { IriBuf::new_unchecked(String::from_utf8_unchecked(vec_cap::<K>(b))) }
}

fn v_scheme(a: &[u8]) -> bool {
    uri::Scheme::new(a).is_ok()
}
fn v_uri_authority(a: &[u8]) -> bool {
    tables::t_uri_authority_valid_k(a, 4)
}
fn v_uri_path(a: &[u8]) -> bool {
    uri::Path::new(a).is_ok()
}
fn v_uri_query(a: &[u8]) -> bool {
    uri::Query::new(a).is_ok()
}
fn v_uri_fragment(a: &[u8]) -> bool {
    uri::Fragment::new(a).is_ok()
}
fn v_iri_authority(a: &[u8]) -> bool {
    tables::t_iri_authority_valid_k(a, 4)
}
fn v_iri_path(a: &[u8]) -> bool {
    tables::t_iri_path_valid_k(a, 4)
}
fn v_iri_query(a: &[u8]) -> bool {
    tables::t_iri_query_valid_k(a, 4)
}
fn v_iri_fragment(a: &[u8]) -> bool {
    tables::t_iri_fragment_valid_k(a, 4)
}

// ---- UriRefBuf
setter_body!(urirefbuf_set_scheme, UriRefBuf, t_uri_uriref_valid_k, mk_urirefbuf, Which::Scheme, v_scheme,
    |x: &mut UriRefBuf, a: Option<&[u8]>| x.set_scheme(a.map(|a| unsafe { uri::Scheme::new_unchecked(a) })), true);
setter_body!(urirefbuf_set_authority, UriRefBuf, t_uri_uriref_valid_k, mk_urirefbuf, Which::Authority, v_uri_authority,
    |x: &mut UriRefBuf, a: Option<&[u8]>| x.set_authority(a.map(|a| unsafe { uri::Authority::new_unchecked(a) })), true);
setter_body!(urirefbuf_set_path, UriRefBuf, t_uri_uriref_valid_k, mk_urirefbuf, Which::Path, v_uri_path,
    |x: &mut UriRefBuf, a: Option<&[u8]>| x.set_path(unsafe { uri::Path::new_unchecked(a.unwrap()) }), false);
setter_body!(urirefbuf_set_query, UriRefBuf, t_uri_uriref_valid_k, mk_urirefbuf, Which::Query, v_uri_query,
    |x: &mut UriRefBuf, a: Option<&[u8]>| x.set_query(a.map(|a| unsafe { uri::Query::new_unchecked(a) })), true);
setter_body!(urirefbuf_set_fragment, UriRefBuf, t_uri_uriref_valid_k, mk_urirefbuf, Which::Fragment, v_uri_fragment,
    |x: &mut UriRefBuf, a: Option<&[u8]>| x.set_fragment(a.map(|a| unsafe { uri::Fragment::new_unchecked(a) })), true);

macro_rules! h {
    ($name:ident, $body:ident, $n:expr, $m:expr) => {
        pub fn $name() {
            $body::<$n, $m>()
        }
    };
}

// @h prop=C05,C04:thorough tier=quick kind=check reach=0 mem=8 timeout=1800 bound="UriRefBuf text <= 4 bytes, scheme argument <= 2 bytes or removal" encodes="RiRefBufImpl::set_scheme;parse::find_scheme;PathImpl::looks_like_scheme;utils::{replace,allocate_range}"
#[cfg_attr(kani, kani::proof)]
#[cfg_attr(kani, kani::unwind(11))]
#[cfg_attr(kani, kani::stub(std::vec::Vec::resize, crate::stubs::vec_resize))]
pub fn c05_urirefbuf_set_scheme_n4() {
    urirefbuf_set_scheme::<4, 2, 7>()
}

// @h prop=C05 tier=thorough kind=check reach=0 timeout=2400 bound="UriRefBuf text <= 5 bytes, scheme argument <= 2 bytes or removal" encodes="RiRefBufImpl::set_scheme;parse::find_scheme;PathImpl::looks_like_scheme;utils::{replace,allocate_range}"
#[cfg_attr(kani, kani::proof)]
#[cfg_attr(kani, kani::unwind(11))]
#[cfg_attr(kani, kani::stub(std::vec::Vec::resize, crate::stubs::vec_resize))]
pub fn c05_urirefbuf_set_scheme_n5() {
    urirefbuf_set_scheme::<5, 2, 8>()
}

// @h prop=C05,C04:thorough tier=quick kind=check reach=0 mem=8 timeout=1800 bound="UriRefBuf text <= 4 bytes, authority argument <= 2 bytes or removal" encodes="RiRefBufImpl::set_authority;parse::find_authority;utils::{replace,allocate_range}"
#[cfg_attr(kani, kani::proof)]
#[cfg_attr(kani, kani::unwind(11))]
#[cfg_attr(kani, kani::stub(std::vec::Vec::resize, crate::stubs::vec_resize))]
pub fn c05_urirefbuf_set_authority_n4() {
    urirefbuf_set_authority::<4, 2, 9>()
}

// @h prop=C05 tier=thorough kind=check reach=0 timeout=2400 bound="UriRefBuf text <= 5 bytes, authority argument <= 2 bytes or removal" encodes="RiRefBufImpl::set_authority;parse::find_authority;utils::{replace,allocate_range}"
#[cfg_attr(kani, kani::proof)]
#[cfg_attr(kani, kani::unwind(11))]
#[cfg_attr(kani, kani::stub(std::vec::Vec::resize, crate::stubs::vec_resize))]
pub fn c05_urirefbuf_set_authority_n5() {
    urirefbuf_set_authority::<5, 2, 10>()
}

// @h prop=C05,C04 tier=quick kind=check reach=0 mem=8 timeout=1800 bound="UriRefBuf text <= 4 bytes, path argument <= 3 bytes" encodes="RiRefBufImpl::set_path;parse::find_path;RiRefImpl::authority;utils::{replace,allocate_range}"
#[cfg_attr(kani, kani::proof)]
#[cfg_attr(kani, kani::unwind(11))]
#[cfg_attr(kani, kani::stub(std::vec::Vec::resize, crate::stubs::vec_resize))]
pub fn c05_urirefbuf_set_path_n4() {
    urirefbuf_set_path::<4, 3, 9>()
}

// @h prop=C05 tier=thorough kind=check reach=0 timeout=2400 bound="UriRefBuf text <= 5 bytes, path argument <= 3 bytes" encodes="RiRefBufImpl::set_path;parse::find_path;RiRefImpl::authority;utils::{replace,allocate_range}"
#[cfg_attr(kani, kani::proof)]
#[cfg_attr(kani, kani::unwind(11))]
#[cfg_attr(kani, kani::stub(std::vec::Vec::resize, crate::stubs::vec_resize))]
pub fn c05_urirefbuf_set_path_n5() {
    urirefbuf_set_path::<5, 3, 10>()
}

// @h prop=C05,C04:thorough tier=quick kind=check reach=0 mem=8 timeout=1800 bound="UriRefBuf text <= 4 bytes, query argument <= 2 bytes or removal" encodes="RiRefBufImpl::set_query;parse::find_query;utils::{replace,allocate_range}"
#[cfg_attr(kani, kani::proof)]
#[cfg_attr(kani, kani::unwind(11))]
#[cfg_attr(kani, kani::stub(std::vec::Vec::resize, crate::stubs::vec_resize))]
pub fn c05_urirefbuf_set_query_n4() {
    urirefbuf_set_query::<4, 2, 7>()
}

// @h prop=C05 tier=thorough kind=check reach=0 timeout=2400 bound="UriRefBuf text <= 5 bytes, query argument <= 2 bytes or removal" encodes="RiRefBufImpl::set_query;parse::find_query;utils::{replace,allocate_range}"
#[cfg_attr(kani, kani::proof)]
#[cfg_attr(kani, kani::unwind(11))]
#[cfg_attr(kani, kani::stub(std::vec::Vec::resize, crate::stubs::vec_resize))]
pub fn c05_urirefbuf_set_query_n5() {
    urirefbuf_set_query::<5, 2, 8>()
}

// @h prop=C05,C04:thorough tier=quick kind=check reach=0 mem=8 timeout=1800 bound="UriRefBuf text <= 4 bytes, fragment argument <= 2 bytes or removal" encodes="RiRefBufImpl::set_fragment;parse::find_fragment;utils::{replace,allocate_range}"
#[cfg_attr(kani, kani::proof)]
#[cfg_attr(kani, kani::unwind(11))]
#[cfg_attr(kani, kani::stub(std::vec::Vec::resize, crate::stubs::vec_resize))]
pub fn c05_urirefbuf_set_fragment_n4() {
    urirefbuf_set_fragment::<4, 2, 7>()
}

// @h prop=C05 tier=thorough kind=check reach=0 timeout=2400 bound="UriRefBuf text <= 5 bytes, fragment argument <= 2 bytes or removal" encodes="RiRefBufImpl::set_fragment;parse::find_fragment;utils::{replace,allocate_range}"
#[cfg_attr(kani, kani::proof)]
#[cfg_attr(kani, kani::unwind(11))]
#[cfg_attr(kani, kani::stub(std::vec::Vec::resize, crate::stubs::vec_resize))]
pub fn c05_urirefbuf_set_fragment_n5() {
    urirefbuf_set_fragment::<5, 2, 8>()
}

// thorough: deeper bounds
// ---- IriRefBuf (own RiRefBufImpl impl over a String; multi-byte arguments)
setter_body!(irirefbuf_set_authority, IriRefBuf, t_iri_iriref_valid_k, mk_irirefbuf, Which::Authority, v_iri_authority,
    |x: &mut IriRefBuf, a: Option<&[u8]>| x.set_authority(a.map(|a| unsafe { iri::Authority::new_unchecked(as_str(a)) })), true);
setter_body!(irirefbuf_set_path, IriRefBuf, t_iri_iriref_valid_k, mk_irirefbuf, Which::Path, v_iri_path,
    |x: &mut IriRefBuf, a: Option<&[u8]>| x.set_path(unsafe { iri::Path::new_unchecked(as_str(a.unwrap())) }), false);
setter_body!(irirefbuf_set_query, IriRefBuf, t_iri_iriref_valid_k, mk_irirefbuf, Which::Query, v_iri_query,
    |x: &mut IriRefBuf, a: Option<&[u8]>| x.set_query(a.map(|a| unsafe { iri::Query::new_unchecked(as_str(a)) })), true);
setter_body!(irirefbuf_set_scheme, IriRefBuf, t_iri_iriref_valid_k, mk_irirefbuf, Which::Scheme, v_scheme,
    |x: &mut IriRefBuf, a: Option<&[u8]>| x.set_scheme(a.map(|a| unsafe { uri::Scheme::new_unchecked(a) })), true);
setter_body!(irirefbuf_set_fragment, IriRefBuf, t_iri_iriref_valid_k, mk_irirefbuf, Which::Fragment, v_iri_fragment,
    |x: &mut IriRefBuf, a: Option<&[u8]>| x.set_fragment(a.map(|a| unsafe { iri::Fragment::new_unchecked(as_str(a)) })), true);

// @h prop=C05,C04:thorough tier=quick kind=check reach=0 mem=8 timeout=1800 bound="IriRefBuf text <= 4 bytes (UTF-8), query argument <= 3 bytes (one 3-byte scalar fits) or removal" encodes="RiRefBufImpl::set_query for IriRefBuf (String buffer)"
#[cfg_attr(kani, kani::proof)]
#[cfg_attr(kani, kani::unwind(11))]
#[cfg_attr(kani, kani::stub(std::vec::Vec::resize, crate::stubs::vec_resize))]
pub fn c05_irirefbuf_set_query_n4() {
    irirefbuf_set_query::<4, 3, 8>()
}

// @h prop=C05 tier=thorough kind=check reach=0 timeout=2400 bound="IriRefBuf text <= 5 bytes (UTF-8), query argument <= 3 bytes (one 3-byte scalar fits) or removal" encodes="RiRefBufImpl::set_query for IriRefBuf (String buffer)"
#[cfg_attr(kani, kani::proof)]
#[cfg_attr(kani, kani::unwind(11))]
#[cfg_attr(kani, kani::stub(std::vec::Vec::resize, crate::stubs::vec_resize))]
pub fn c05_irirefbuf_set_query_n5() {
    irirefbuf_set_query::<5, 3, 9>()
}

// ---- UriBuf / IriBuf: set_scheme takes a scheme (never removed); the other
// setters are the same generic code through another impl of the traits.
setter_body!(uribuf_set_scheme, UriBuf, t_uri_uri_valid_k, mk_uribuf, Which::Scheme, v_scheme,
    |x: &mut UriBuf, a: Option<&[u8]>| x.set_scheme(unsafe { uri::Scheme::new_unchecked(a.unwrap()) }), false);
setter_body!(uribuf_set_authority, UriBuf, t_uri_uri_valid_k, mk_uribuf, Which::Authority, v_uri_authority,
    |x: &mut UriBuf, a: Option<&[u8]>| x.set_authority(a.map(|a| unsafe { uri::Authority::new_unchecked(a) })), true);
setter_body!(uribuf_set_path, UriBuf, t_uri_uri_valid_k, mk_uribuf, Which::Path, v_uri_path,
    |x: &mut UriBuf, a: Option<&[u8]>| x.set_path(unsafe { uri::Path::new_unchecked(a.unwrap()) }), false);
setter_body!(iribuf_set_scheme, IriBuf, t_iri_iri_valid_k, mk_iribuf, Which::Scheme, v_scheme,
    |x: &mut IriBuf, a: Option<&[u8]>| x.set_scheme(unsafe { uri::Scheme::new_unchecked(a.unwrap()) }), false);
setter_body!(iribuf_set_path, IriBuf, t_iri_iri_valid_k, mk_iribuf, Which::Path, v_iri_path,
    |x: &mut IriBuf, a: Option<&[u8]>| x.set_path(unsafe { iri::Path::new_unchecked(as_str(a.unwrap())) }), false);

// @h prop=C05,C04:thorough tier=quick kind=check reach=0 mem=8 timeout=1800 bound="UriBuf text <= 4 bytes, scheme argument <= 2 bytes" encodes="RiBufImpl::set_scheme;parse::scheme"
#[cfg_attr(kani, kani::proof)]
#[cfg_attr(kani, kani::unwind(11))]
#[cfg_attr(kani, kani::stub(std::vec::Vec::resize, crate::stubs::vec_resize))]
pub fn c05_uribuf_set_scheme_n4() {
    uribuf_set_scheme::<4, 2, 7>()
}

// @h prop=C05 tier=thorough kind=check reach=0 timeout=2400 bound="UriBuf text <= 5 bytes, scheme argument <= 2 bytes" encodes="RiBufImpl::set_scheme;parse::scheme"
#[cfg_attr(kani, kani::proof)]
#[cfg_attr(kani, kani::unwind(11))]
#[cfg_attr(kani, kani::stub(std::vec::Vec::resize, crate::stubs::vec_resize))]
pub fn c05_uribuf_set_scheme_n5() {
    uribuf_set_scheme::<5, 2, 8>()
}

/// Buffers obtained without parsing: `default()` and `from_scheme` are valid
/// values of their type (C04: "however obtained").
fn constructors<const M: usize>() {
    let a = Text::<M>::any();
    let sc = a.bytes();
    assume(uri::Scheme::new(sc).is_ok());
    let d = UriRefBuf::default();
    assert!(tables::t_uri_uriref_valid_k(d.as_bytes(), 1), "C04: UriRefBuf::default() is not a valid URI reference");
    let di = IriRefBuf::default();
    assert!(tables::t_iri_iriref_valid_k(di.as_bytes(), 1), "C04: IriRefBuf::default() is not a valid IRI reference");
    let dp = uri::PathBuf::default();
    assert!(tables::t_uri_path_valid_k(dp.as_bytes(), 1), "C04: PathBuf::default() is not a valid path");
    let sb = unsafe { uri::SchemeBuf::new_unchecked(vec_of(sc)) };
    let u = UriBuf::from_scheme(sb);
    assert!(tables::t_uri_uri_valid_k(u.as_bytes(), M + 1), "C04: UriBuf::from_scheme is not a valid URI");
    assert!(u.as_bytes().len() == sc.len() + 1 && bytes_eq(&u.as_bytes()[..sc.len()], sc) && u.as_bytes()[sc.len()] == b':', "C04: from_scheme is not scheme ':'");
    let sb2 = unsafe { uri::SchemeBuf::new_unchecked(vec_of(sc)) };
    let i = IriBuf::from_scheme(sb2);
    assert!(tables::t_iri_iri_valid_k(i.as_bytes(), M + 1), "C04: IriBuf::from_scheme is not a valid IRI");
    cover!(sc.len() == M, "maximal scheme");
    forget(u);
    forget(i);
}

// @h prop=C04 tier=quick kind=check reach=0 timeout=1800 mem=6 bound="scheme <= 4 bytes" encodes="Default for UriRefBuf/IriRefBuf/PathBuf;RiBufImpl::from_scheme;UriBuf::from_scheme;IriBuf::from_scheme"
#[cfg_attr(kani, kani::proof)]
#[cfg_attr(kani, kani::unwind(8))]
#[cfg_attr(kani, kani::stub(std::vec::Vec::push, crate::stubs::vec_push))]
pub fn c04_constructors_m4() {
    constructors::<4>()
}
