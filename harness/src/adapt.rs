//! Uniform byte-level view of the eight URI/IRI (reference) types so that one
//! harness body is instantiated for each concrete type (Kani verifies each
//! instantiation separately; the harness names say which).
use iref_core::{iri, uri, Iri, IriBuf, IriRef, IriRefBuf, Uri, UriBuf, UriRef, UriRefBuf};

pub type Parts5<'a> = (
    Option<&'a [u8]>,
    Option<&'a [u8]>,
    &'a [u8],
    Option<&'a [u8]>,
    Option<&'a [u8]>,
);

pub trait RefLike {
    fn text(&self) -> &[u8];
    fn scheme_b(&self) -> Option<&[u8]>;
    fn authority_b(&self) -> Option<&[u8]>;
    fn path_b(&self) -> &[u8];
    fn query_b(&self) -> Option<&[u8]>;
    fn fragment_b(&self) -> Option<&[u8]>;
    fn parts_b(&self) -> Parts5<'_>;
}

macro_rules! reflike_ref {
    ($t:ty) => {
        impl RefLike for $t {
            fn text(&self) -> &[u8] {
                self.as_bytes()
            }
            fn scheme_b(&self) -> Option<&[u8]> {
                self.scheme().map(|s| s.as_bytes())
            }
            fn authority_b(&self) -> Option<&[u8]> {
                self.authority().map(|s| s.as_bytes())
            }
            fn path_b(&self) -> &[u8] {
                self.path().as_bytes()
            }
            fn query_b(&self) -> Option<&[u8]> {
                self.query().map(|s| s.as_bytes())
            }
            fn fragment_b(&self) -> Option<&[u8]> {
                self.fragment().map(|s| s.as_bytes())
            }
            fn parts_b(&self) -> Parts5<'_> {
                let p = self.parts();
                (
                    p.scheme.map(|s| s.as_bytes()),
                    p.authority.map(|s| s.as_bytes()),
                    p.path.as_bytes(),
                    p.query.map(|s| s.as_bytes()),
                    p.fragment.map(|s| s.as_bytes()),
                )
            }
        }
    };
}

macro_rules! reflike_abs {
    ($t:ty) => {
        impl RefLike for $t {
            fn text(&self) -> &[u8] {
                self.as_bytes()
            }
            fn scheme_b(&self) -> Option<&[u8]> {
                Some(self.scheme().as_bytes())
            }
            fn authority_b(&self) -> Option<&[u8]> {
                self.authority().map(|s| s.as_bytes())
            }
            fn path_b(&self) -> &[u8] {
                self.path().as_bytes()
            }
            fn query_b(&self) -> Option<&[u8]> {
                self.query().map(|s| s.as_bytes())
            }
            fn fragment_b(&self) -> Option<&[u8]> {
                self.fragment().map(|s| s.as_bytes())
            }
            fn parts_b(&self) -> Parts5<'_> {
                let p = self.parts();
                (
                    Some(p.scheme.as_bytes()),
                    p.authority.map(|s| s.as_bytes()),
                    p.path.as_bytes(),
                    p.query.map(|s| s.as_bytes()),
                    p.fragment.map(|s| s.as_bytes()),
                )
            }
        }
    };
}

reflike_ref!(UriRef);
reflike_ref!(UriRefBuf);
reflike_ref!(IriRef);
reflike_ref!(IriRefBuf);
reflike_abs!(Uri);
reflike_abs!(UriBuf);
reflike_abs!(Iri);
reflike_abs!(IriBuf);
