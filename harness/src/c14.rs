//! C14 — text is preserved through every route out (routes in: c01.rs), and
//! comparing a value with a plain string is plain text comparison.
use crate::serde_drv::Rec;
use crate::sym::{as_str, assume, bytes_eq, vec_of, Text};
use crate::{cover, tables};
use iref_core::{iri, uri};
use serde::Serialize;
use std::borrow::Borrow;
use std::fmt::Write;
use std::mem::forget;

macro_rules! same {
    ($got:expr, $b:expr) => {
        $got.as_ptr() == $b.as_ptr() && $got.len() == $b.len()
    };
}

/// `fmt::Write` sink into a fixed array.
pub struct Sink {
    pub buf: [u8; 32],
    pub len: usize,
}
impl Write for Sink {
    fn write_str(&mut self, s: &str) -> std::fmt::Result {
        let b = s.as_bytes();
        if self.len + b.len() > self.buf.len() {
            return Err(std::fmt::Error);
        }
        let mut i = 0;
        while i < b.len() {
            self.buf[self.len + i] = b[i];
            i += 1;
        }
        self.len += b.len();
        Ok(())
    }
}

macro_rules! views_u8 {
    ($fname:ident, $T:ty, $TB:ty, $table:ident) => {
        fn $fname<const N: usize>() {
            let t = Text::<N>::any();
            let b = t.bytes();
            assume(tables::$table(b));
            let x = unsafe { <$T>::new_unchecked(b) };
            // borrowed views: the caller's own bytes
            assert!(same!(x.as_bytes(), b), "as_bytes");
            assert!(same!(x.as_str().as_bytes(), b), "as_str");
            assert!(same!(AsRef::<[u8]>::as_ref(x), b), "AsRef<[u8]>");
            assert!(same!(AsRef::<str>::as_ref(x).as_bytes(), b), "AsRef<str>");
            assert!(same!(Borrow::<[u8]>::borrow(x), b), "Borrow<[u8]>");
            assert!(same!(<&[u8]>::from(x), b), "From<&T> for &[u8]");
            assert!(same!(<&str>::from(x).as_bytes(), b), "From<&T> for &str");
            // owned copies and conversions out
            let o: $TB = x.to_owned();
            assert!(bytes_eq(o.as_bytes(), b), "to_owned changes the text");
            let c = o.clone();
            assert!(bytes_eq(c.as_bytes(), b), "Clone changes the text");
            let p = c.as_bytes().as_ptr();
            let s: String = c.into_string();
            assert!(s.as_ptr() == p && bytes_eq(s.as_bytes(), b), "into_string does not hand out the buffer unchanged");
            forget(s);
            let p = o.as_bytes().as_ptr();
            let v: Vec<u8> = o.into_bytes();
            assert!(v.as_ptr() == p && bytes_eq(&v, b), "into_bytes does not hand out the buffer unchanged");
            forget(v);
            let o2 = unsafe { <$TB>::new_unchecked(vec_of(b)) };
            let v2: Vec<u8> = o2.into();
            assert!(bytes_eq(&v2, b), "From<Buf> for Vec<u8>");
            forget(v2);
            let o3 = unsafe { <$TB>::new_unchecked(vec_of(b)) };
            let s3: String = o3.into();
            assert!(bytes_eq(s3.as_bytes(), b), "From<Buf> for String");
            forget(s3);
            // serde Serialize records exactly the text
            let mut out = [0u8; 16];
            let mut len = 0usize;
            assert!(x.serialize(Rec { out: &mut out, len: &mut len }).is_ok(), "serialize failed");
            assert!(bytes_eq(&out[..len], b), "serde serialisation is not the text");
            cover!(b.len() == N, "maximal length");
        }
    };
}

macro_rules! views_str {
    ($fname:ident, $T:ty, $TB:ty, $table:ident) => {
        fn $fname<const N: usize>() {
            let t = Text::<N>::any();
            let b = t.bytes();
            assume(tables::$table(b));
            let x = unsafe { <$T>::new_unchecked(as_str(b)) };
            assert!(same!(x.as_bytes(), b), "as_bytes");
            assert!(same!(x.as_str().as_bytes(), b), "as_str");
            assert!(same!(AsRef::<[u8]>::as_ref(x), b), "AsRef<[u8]>");
            assert!(same!(AsRef::<str>::as_ref(x).as_bytes(), b), "AsRef<str>");
            assert!(same!(Borrow::<str>::borrow(x).as_bytes(), b), "Borrow<str>");
            assert!(same!(<&str>::from(x).as_bytes(), b), "From<&T> for &str");
            let o: $TB = x.to_owned();
            assert!(bytes_eq(o.as_bytes(), b), "to_owned changes the text");
            let c = o.clone();
            assert!(bytes_eq(c.as_bytes(), b), "Clone changes the text");
            let p = c.as_bytes().as_ptr();
            let s: String = c.into_string();
            assert!(s.as_ptr() == p && bytes_eq(s.as_bytes(), b), "into_string does not hand out the buffer unchanged");
            forget(s);
            let p = o.as_bytes().as_ptr();
            let v: Vec<u8> = o.into_bytes();
            assert!(v.as_ptr() == p && bytes_eq(&v, b), "into_bytes does not hand out the buffer unchanged");
            forget(v);
            let mut out = [0u8; 16];
            let mut len = 0usize;
            assert!(x.serialize(Rec { out: &mut out, len: &mut len }).is_ok(), "serialize failed");
            assert!(bytes_eq(&out[..len], b), "serde serialisation is not the text");
            cover!(b.len() >= 3 && b[0] >= 0xE0, "starts with a 3-4 byte scalar");
        }
    };
}

views_u8!(uriref_views, uri::UriRef, uri::UriRefBuf, t_uri_uriref_valid);
views_u8!(uri_segment_views, uri::Segment, uri::SegmentBuf, t_uri_segment_valid);
views_u8!(uri_authority_views, uri::Authority, uri::AuthorityBuf, t_uri_authority_valid);
views_str!(iriref_views, iri::IriRef, iri::IriRefBuf, t_iri_iriref_valid);
views_str!(iri_query_views, iri::Query, iri::QueryBuf, t_iri_query_valid);

// @h prop=C14 tier=quick kind=check bound="UriRef text <= 7 bytes" encodes="generated as_bytes/as_str/AsRef/Borrow/From/to_owned/Clone/into_string/into_bytes/Serialize for UriRef,UriRefBuf"
#[cfg_attr(kani, kani::proof)]
#[cfg_attr(kani, kani::unwind(9))]
#[cfg_attr(kani, kani::stub(<[u8]>::to_vec, crate::stubs::slice_to_vec))]
pub fn c14_uriref_views_n7() {
    uriref_views::<7>()
}

// @h prop=C14 tier=thorough kind=check bound="uri::Segment text <= 7 bytes" encodes="same generated routes for uri::Segment,SegmentBuf"
#[cfg_attr(kani, kani::proof)]
#[cfg_attr(kani, kani::unwind(9))]
#[cfg_attr(kani, kani::stub(<[u8]>::to_vec, crate::stubs::slice_to_vec))]
pub fn c14_uri_segment_views_n7() {
    uri_segment_views::<7>()
}

// @h prop=C14 tier=thorough kind=check bound="uri::Authority text <= 7 bytes" encodes="same generated routes for uri::Authority,AuthorityBuf"
#[cfg_attr(kani, kani::proof)]
#[cfg_attr(kani, kani::unwind(9))]
#[cfg_attr(kani, kani::stub(<[u8]>::to_vec, crate::stubs::slice_to_vec))]
pub fn c14_uri_authority_views_n7() {
    uri_authority_views::<7>()
}

// @h prop=C14 tier=quick kind=check bound="IriRef text <= 6 bytes (UTF-8)" encodes="generated routes for IriRef,IriRefBuf (str-based)"
#[cfg_attr(kani, kani::proof)]
#[cfg_attr(kani, kani::unwind(8))]
#[cfg_attr(kani, kani::stub(<[u8]>::to_vec, crate::stubs::slice_to_vec))]
pub fn c14_iriref_views_n6() {
    iriref_views::<6>()
}

// @h prop=C14 tier=thorough kind=check bound="iri::Query text <= 6 bytes (UTF-8)" encodes="generated routes for iri::Query,QueryBuf"
#[cfg_attr(kani, kani::proof)]
#[cfg_attr(kani, kani::unwind(8))]
#[cfg_attr(kani, kani::stub(<[u8]>::to_vec, crate::stubs::slice_to_vec))]
pub fn c14_iri_query_views_n6() {
    iri_query_views::<6>()
}

/// Display writes exactly the text.
fn display<const N: usize>() {
    let t = Text::<N>::any();
    let b = t.bytes();
    assume(tables::t_uri_uriref_valid(b));
    let x = unsafe { uri::UriRef::new_unchecked(b) };
    let mut sink = Sink { buf: [0; 32], len: 0 };
    assert!(write!(sink, "{}", x).is_ok(), "Display failed");
    assert!(bytes_eq(&sink.buf[..sink.len], b), "Display is not the text");
    cover!(b.len() == N, "maximal length");
}

// @h prop=C14 tier=quick kind=check bound="UriRef text <= 5 bytes" encodes="Display for UriRef (core::fmt machinery as compiled)"
#[cfg_attr(kani, kani::proof)]
#[cfg_attr(kani, kani::unwind(7))]
pub fn c14_display_uriref_n5() {
    display::<5>()
}

/// Comparison with plain text is plain byte comparison (`str_eq!`/`bytestr_eq!`).
fn text_eq<const N: usize, const M: usize>() {
    let t = Text::<N>::any();
    let b = t.bytes();
    assume(tables::t_uri_uriref_valid(b));
    let o = Text::<M>::any();
    let s = o.bytes();
    let x = unsafe { uri::UriRef::new_unchecked(b) };
    let want = bytes_eq(b, s);
    assert!((*x == *s) == want, "UriRef == [u8] is not byte equality");
    assert!((*x == s) == want, "UriRef == &[u8] is not byte equality");
    if tables::t_utf8_valid(s) {
        let st = as_str(s);
        assert!((*x == *st) == want, "UriRef == str is not text equality");
        assert!((*x == st) == want, "UriRef == &str is not text equality");
    }
    // a normalising-equal but textually different pair must NOT be text-equal
    cover!(want && b.len() > 2, "equal texts");
    cover!(!want && b.len() == s.len() && b.len() > 2, "same length, different text");
}

// @h prop=C14 tier=quick kind=check bound="UriRef text <= 5 bytes vs any byte string <= 5 bytes" encodes="bytestr_eq!(UriRef): PartialEq<[u8]>,<&[u8]>,<str>,<&str>"
#[cfg_attr(kani, kani::proof)]
#[cfg_attr(kani, kani::unwind(7))]
pub fn c14_text_eq_uriref_n5() {
    text_eq::<5, 5>()
}

fn text_eq_iri<const N: usize, const M: usize>() {
    let t = Text::<N>::any();
    let b = t.bytes();
    assume(tables::t_iri_iriref_valid(b));
    let o = Text::<M>::any();
    let s = o.bytes();
    assume(tables::t_utf8_valid(s));
    let x = unsafe { iri::IriRef::new_unchecked(as_str(b)) };
    let want = bytes_eq(b, s);
    let st = as_str(s);
    assert!((*x == *st) == want, "IriRef == str is not text equality");
    assert!((*x == st) == want, "IriRef == &str is not text equality");
    cover!(want && b.len() > 2, "equal texts");
    cover!(!want && b.len() == s.len() && b.len() > 2, "same length, different text");
}

// @h prop=C14 tier=quick kind=check bound="IriRef text <= 5 bytes vs any UTF-8 string <= 5 bytes" encodes="str_eq!(IriRef): PartialEq<str>,<&str>"
#[cfg_attr(kani, kani::proof)]
#[cfg_attr(kani, kani::unwind(7))]
pub fn c14_text_eq_iriref_n5() {
    text_eq_iri::<5, 5>()
}

/// Every hand-written comparison of a component with plain text is plain text
/// comparison (never a percent-decoded or normalising one).
fn text_eq_uri_components<const N: usize, const M: usize>() {
    let t = Text::<N>::any();
    let b = t.bytes();
    let o = Text::<M>::any();
    let s = o.bytes();
    assume(tables::t_utf8_valid(s));
    let st = as_str(s);
    let want = bytes_eq(b, s);
    if let Ok(x) = uri::Fragment::new(b) {
        assert!((*x == st) == want, "uri::Fragment == &str is not text equality");
    }
    if let Ok(x) = uri::Query::new(b) {
        assert!((*x == st) == want, "uri::Query == &str is not text equality");
    }
    if let Ok(x) = uri::UserInfo::new(b) {
        assert!((*x == st) == want, "uri::UserInfo == &str is not text equality");
    }
    if tables::t_uri_host_valid(b) {
        let x = unsafe { uri::Host::new_unchecked(b) };
        assert!((*x == st) == want, "uri::Host == &str is not text equality");
    }
    if tables::t_uri_authority_valid(b) {
        let x = unsafe { uri::Authority::new_unchecked(b) };
        assert!((*x == st) == want, "uri::Authority == &str is not text equality");
    }
    if let Ok(x) = uri::Path::new(b) {
        assert!((*x == st) == want, "uri::Path == &str is not text equality");
        assert!((*x == *st) == want, "uri::Path == str is not text equality");
        assert!((*x == *s) == want, "uri::Path == [u8] is not byte equality");
        assert!((*x == s) == want, "uri::Path == &[u8] is not byte equality");
    }
    cover!(want && b.len() == 3 && b[0] == b'%', "an escape compared with its own text");
    cover!(!want && b.len() == 3 && b[0] == b'%' && s.len() == 1, "an escape compared with the byte it encodes");
    cover!(!want && b.len() == 3 && s.len() == 1 && b[0] == s[0] && b[1] == b'/', "a path with a removable dot segment vs its normal form");
}

// @h prop=C14 tier=quick kind=check timeout=2400 mem=16 bound="component text <= 4 bytes vs any UTF-8 string <= 4 bytes" encodes="hand-written PartialEq<&str> for uri::{Fragment,Query,UserInfo,Host,Authority};PartialEq<str|&str|[u8]|&[u8]> for uri::Path"
#[cfg_attr(kani, kani::proof)]
#[cfg_attr(kani, kani::unwind(6))]
pub fn c14_text_eq_uri_components_n4() {
    text_eq_uri_components::<4, 4>()
}

fn text_eq_iri_components<const N: usize, const M: usize>() {
    let t = Text::<N>::any();
    let b = t.bytes();
    assume(tables::t_utf8_valid(b));
    let o = Text::<M>::any();
    let s = o.bytes();
    assume(tables::t_utf8_valid(s));
    let st = as_str(s);
    let bs = as_str(b);
    let want = bytes_eq(b, s);
    if tables::t_iri_fragment_valid(b) {
        let x = unsafe { iri::Fragment::new_unchecked(bs) };
        assert!((*x == st) == want, "iri::Fragment == &str is not text equality");
    }
    if tables::t_iri_query_valid(b) {
        let x = unsafe { iri::Query::new_unchecked(bs) };
        assert!((*x == st) == want, "iri::Query == &str is not text equality");
    }
    if tables::t_iri_userinfo_valid(b) {
        let x = unsafe { iri::UserInfo::new_unchecked(bs) };
        assert!((*x == st) == want, "iri::UserInfo == &str is not text equality");
    }
    if tables::t_iri_host_valid(b) {
        let x = unsafe { iri::Host::new_unchecked(bs) };
        assert!((*x == st) == want, "iri::Host == &str is not text equality");
    }
    if tables::t_iri_authority_valid(b) {
        let x = unsafe { iri::Authority::new_unchecked(bs) };
        assert!((*x == st) == want, "iri::Authority == &str is not text equality");
    }
    if tables::t_iri_path_valid(b) {
        let x = unsafe { iri::Path::new_unchecked(bs) };
        assert!((*x == st) == want, "iri::Path == &str is not text equality");
        assert!((*x == *st) == want, "iri::Path == str is not text equality");
    }
    cover!(want && b.len() == 3 && b[0] == b'%', "an escape compared with its own text");
    cover!(!want && b.len() == 3 && b[0] == b'%' && s.len() == 1, "an escape compared with the byte it encodes");
}

// @h prop=C14 tier=quick kind=check timeout=2400 mem=16 bound="component text <= 4 bytes (UTF-8) vs any UTF-8 string <= 4 bytes" encodes="hand-written PartialEq<&str> for iri::{Fragment,Query,UserInfo,Host,Authority,Path}"
#[cfg_attr(kani, kani::proof)]
#[cfg_attr(kani, kani::unwind(6))]
pub fn c14_text_eq_iri_components_n4() {
    text_eq_iri_components::<4, 4>()
}

/// bytestr_eq!/str_eq! instances of the other whole-value types.
fn text_eq_wholes<const N: usize, const M: usize>() {
    let t = Text::<N>::any();
    let b = t.bytes();
    let o = Text::<M>::any();
    let s = o.bytes();
    assume(tables::t_utf8_valid(s));
    let st = as_str(s);
    let want = bytes_eq(b, s);
    if tables::t_uri_uri_valid(b) {
        let x = unsafe { uri::Uri::new_unchecked(b) };
        assert!((*x == st) == want && (*x == *st) == want && (*x == *s) == want && (*x == s) == want, "Uri vs plain text is not text equality");
        let xb = unsafe { uri::UriBuf::new_unchecked(vec_of(b)) };
        assert!((xb == st) == want && (xb == *s) == want, "UriBuf vs plain text is not text equality");
        forget(xb);
    }
    if tables::t_uri_uriref_valid(b) {
        let xb = unsafe { uri::UriRefBuf::new_unchecked(vec_of(b)) };
        assert!((xb == st) == want && (xb == *s) == want, "UriRefBuf vs plain text is not text equality");
        forget(xb);
    }
    if tables::t_iri_iri_valid(b) {
        let x = unsafe { iri::Iri::new_unchecked(as_str(b)) };
        assert!((*x == st) == want && (*x == *st) == want, "Iri vs plain text is not text equality");
    }
    if tables::t_iri_iriref_valid(b) {
        let xb = unsafe { iri::IriRefBuf::new_unchecked(String::from_utf8_unchecked(vec_of(b))) };
        assert!((xb == st) == want && (xb == *st) == want, "IriRefBuf vs plain text is not text equality");
        forget(xb);
    }
    cover!(want && b.len() >= 3, "equal texts");
    cover!(!want && b.len() == s.len() && b.len() >= 3, "same length, different text");
}

// @h prop=C14 tier=thorough kind=check timeout=3000 mem=20 bound="whole-value text <= 5 bytes vs any UTF-8 string <= 5 bytes" encodes="bytestr_eq!(Uri,UriBuf,UriRefBuf);str_eq!(Iri,IriRefBuf)"
#[cfg_attr(kani, kani::proof)]
#[cfg_attr(kani, kani::unwind(7))]
pub fn c14_text_eq_wholes_n5() {
    text_eq_wholes::<5, 5>()
}
