//! C11 / C04 — authority editing changes one sub-component and keeps its
//! handle coherent (invariant I: the handle views exactly the authority a
//! fresh `authority()` returns).
use crate::oracle::{comps_of, concat_eq, split_auth, split_ref};
use crate::sym::{any_bool, any_u8, as_str, assume, bytes_eq, vec_cap, vec_of, Text};
use crate::{cover, tables};
use iref_core::{iri, uri, IriRefBuf, UriRefBuf};
use std::mem::forget;

pub const USERINFO: u8 = 0;
pub const HOST: u8 = 1;
pub const PORT: u8 = 2;

/// `out` is `b` with the authority `b[a0..a1]` replaced by
/// `[ userinfo "@" ] host [ ":" port ]` where exactly one part is replaced.
pub(crate) fn is_expected(out: &[u8], b: &[u8], a0: usize, a1: usize, op: u8, new: Option<&[u8]>, k: usize) -> bool {
    let a = &b[a0..a1];
    let s = split_auth(a);
    let mut ui = s.user_info.map(|(x, e)| &a[x..e]);
    let mut host = &a[s.host.0..s.host.1];
    let mut port = s.port.map(|(x, e)| &a[x..e]);
    match op {
        USERINFO => ui = new,
        HOST => host = new.unwrap_or(b""),
        _ => port = new,
    }
    let e: &[u8] = b"";
    let pieces: [&[u8]; 7] = [&b[..a0], ui.unwrap_or(e), if ui.is_some() { b"@" } else { e }, host, if port.is_some() { b":" } else { e }, port.unwrap_or(e), &b[a1..]];
    concat_eq(out, &pieces, k)
}

fn arg_valid(op: u8, a: &[u8]) -> bool {
    match op {
        USERINFO => uri::UserInfo::new(a).is_ok(),
        HOST => tables::t_uri_host_valid_k(a, 4),
        _ => uri::Port::new(a).is_ok(),
    }
}

macro_rules! apply {
    ($am:expr, $op:expr, $some:expr, $arg:expr) => {
        match $op {
            USERINFO => $am.set_userinfo(if $some { Some(unsafe { uri::UserInfo::new_unchecked($arg) }) } else { None }),
            HOST => $am.set_host(unsafe { uri::Host::new_unchecked($arg) }),
            _ => $am.set_port(if $some { Some(unsafe { uri::Port::new_unchecked($arg) }) } else { None }),
        }
    };
}

/// One edit through a fresh handle.
fn covers_all(some: bool, out_len: usize, in_len: usize, a1: usize) {
    cover!(if some { out_len > in_len } else { out_len < in_len }, "the text grew (value set) / shrank (value removed)");
    cover!(if some { out_len <= in_len } else { out_len == in_len }, "replacement of an existing value by one not longer / nothing to remove");
    cover!(a1 < in_len, "text follows the authority (it has to be moved)");
}

/// Quick tier: one witness, because each `kani::cover!` is one more satisfiable
/// SAT query on the full formula (20-160 s each here).
fn covers_min(some: bool, out_len: usize, in_len: usize, a1: usize) {
    cover!(if some { a1 < in_len && out_len != in_len } else { out_len < in_len }, "text that follows the authority was moved (value set) / the text shrank (value removed)");
}

fn one_op<const OP: u8, const SOME: bool, const FRESH: bool, const N: usize, const M: usize>(covers: fn(bool, usize, usize, usize)) {
    let t = Text::<N>::any();
    let b = t.bytes();
    assume(tables::t_uri_uriref_valid_k(b, N));
    let before = split_ref(b);
    assume(before.authority.is_some());
    let cb = comps_of(b, &before);
    let a = Text::<M>::any();
    let arg = a.bytes();
    // whether a value is set or removed is fixed per harness (it halves the formula)
    let some = SOME;
    if some {
        assume(arg_valid(OP, arg));
    } else {
        assume(arg.is_empty());
    }
    let (a0, a1) = before.authority.unwrap();
    let mut x = unsafe { UriRefBuf::new_unchecked(vec_cap::<10>(b)) };
    let (hp, hl) = {
        let mut am = x.authority_mut().unwrap();
        apply!(am, OP, some, arg);
        let v = am.as_authority().as_bytes();
        (v.as_ptr(), v.len())
    };
    let out = x.as_bytes();
    assert!(is_expected(out, b, a0, a1, OP, if some { Some(arg) } else { None }, N + M + 1), "C11: the edit did not change exactly that sub-component");
    assert!(tables::t_uri_uriref_valid_k(out, N + M + 1), "C04: the buffer is no longer a valid URI reference after the authority edit");
    if FRESH {
        let fresh = x.authority().unwrap().as_bytes();
        assert!(hp == fresh.as_ptr() && hl == fresh.len(), "C11: after the call the handle does not view exactly the new authority");
    } else {
        // the same statement without a second parse of the buffer (which costs as
        // much as the edit): by the assertion above the new authority is the piece
        // that starts where the old one did and whose length moved by exactly the
        // length change of the text; authority() of a valid text is that piece (C02)
        assert!(hp == out[a0..].as_ptr() && hl + b.len() == (a1 - a0) + out.len(), "C11: after the call the handle does not view exactly the new authority");
    }
    covers(SOME, out.len(), b.len(), a1);
    forget(x);
}

// @h prop=C11,C04 tier=quick kind=check reach=0 timeout=2400 mem=14 bound="UriRefBuf with authority, text <= 3 bytes, user info <= 1 byte" encodes="RiRefBufImpl::authority_mut;AuthorityMutImpl::{set_userinfo,as_authority};parse::find_user_info;utils::{replace,allocate_range}"
#[cfg_attr(kani, kani::proof)]
#[cfg_attr(kani, kani::unwind(8))]
#[cfg_attr(kani, kani::stub(std::vec::Vec::resize, crate::stubs::vec_resize))]
pub fn c11_set_userinfo_some_n3() {
    one_op::<USERINFO, true, false, 3, 1>(covers_min)
}

// @h prop=C11,C04 tier=thorough kind=check reach=0 timeout=2400 mem=17 bound="UriRefBuf with authority, text <= 4 bytes, user info <= 2 bytes" encodes="RiRefBufImpl::authority_mut;AuthorityMutImpl::{set_userinfo,as_authority};parse::find_user_info;utils::{replace,allocate_range}"
#[cfg_attr(kani, kani::proof)]
#[cfg_attr(kani, kani::unwind(8))]
#[cfg_attr(kani, kani::stub(std::vec::Vec::resize, crate::stubs::vec_resize))]
pub fn c11_set_userinfo_some_n4() {
    one_op::<USERINFO, true, true, 4, 2>(covers_all)
}

// @h prop=C11,C04:thorough tier=quick kind=check reach=0 timeout=2400 mem=10 bound="UriRefBuf with authority, text <= 3 bytes, user info removed" encodes="RiRefBufImpl::authority_mut;AuthorityMutImpl::{set_userinfo,as_authority};parse::find_user_info;utils::{replace,allocate_range}"
#[cfg_attr(kani, kani::proof)]
#[cfg_attr(kani, kani::unwind(8))]
#[cfg_attr(kani, kani::stub(std::vec::Vec::resize, crate::stubs::vec_resize))]
pub fn c11_set_userinfo_none_n3() {
    one_op::<USERINFO, false, false, 3, 0>(covers_min)
}

// @h prop=C11,C04 tier=quick kind=check reach=0 timeout=2400 mem=10 bound="UriRefBuf with authority, text <= 3 bytes, host <= 2 bytes" encodes="AuthorityMutImpl::{set_host,as_authority};parse::find_host;utils::replace"
#[cfg_attr(kani, kani::proof)]
#[cfg_attr(kani, kani::unwind(8))]
#[cfg_attr(kani, kani::stub(std::vec::Vec::resize, crate::stubs::vec_resize))]
pub fn c11_set_host_n3() {
    one_op::<HOST, true, false, 3, 2>(covers_min)
}

// @h prop=C11,C04 tier=thorough kind=check reach=0 timeout=2400 mem=13 bound="UriRefBuf with authority, text <= 4 bytes, host <= 2 bytes" encodes="AuthorityMutImpl::{set_host,as_authority};parse::find_host;utils::replace"
#[cfg_attr(kani, kani::proof)]
#[cfg_attr(kani, kani::unwind(8))]
#[cfg_attr(kani, kani::stub(std::vec::Vec::resize, crate::stubs::vec_resize))]
pub fn c11_set_host_n4() {
    one_op::<HOST, true, true, 4, 2>(covers_all)
}

// @h prop=C11,C04:thorough tier=thorough kind=check reach=0 timeout=2400 mem=24 bound="UriRefBuf with authority, text <= 3 bytes, port <= 1 byte" encodes="AuthorityMutImpl::{set_port,as_authority};parse::find_port;utils::{replace,allocate_range}"
#[cfg_attr(kani, kani::proof)]
#[cfg_attr(kani, kani::unwind(8))]
#[cfg_attr(kani, kani::stub(std::vec::Vec::resize, crate::stubs::vec_resize))]
pub fn c11_set_port_some_n3() {
    one_op::<PORT, true, true, 3, 1>(covers_all)
}

// @h prop=C11,C04 tier=thorough kind=check reach=0 timeout=2400 mem=17 bound="UriRefBuf with authority, text <= 4 bytes, port <= 2 bytes" encodes="AuthorityMutImpl::{set_port,as_authority};parse::find_port;utils::{replace,allocate_range}"
#[cfg_attr(kani, kani::proof)]
#[cfg_attr(kani, kani::unwind(8))]
#[cfg_attr(kani, kani::stub(std::vec::Vec::resize, crate::stubs::vec_resize))]
pub fn c11_set_port_some_n4() {
    one_op::<PORT, true, true, 4, 2>(covers_all)
}

// @h prop=C11,C04:thorough tier=thorough kind=check reach=0 timeout=2400 mem=10 bound="UriRefBuf with authority, text <= 3 bytes, port removed" encodes="AuthorityMutImpl::{set_port,as_authority};parse::find_port;utils::{replace,allocate_range}"
#[cfg_attr(kani, kani::proof)]
#[cfg_attr(kani, kani::unwind(8))]
#[cfg_attr(kani, kani::stub(std::vec::Vec::resize, crate::stubs::vec_resize))]
pub fn c11_set_port_none_n3() {
    one_op::<PORT, false, false, 3, 0>(covers_min)
}

/// Two edits through ONE handle, ops chosen symbolically, give exactly what the
/// same two edits give through two FRESH handles (whose single steps are
/// decided against the section 3.2 oracle above), and the handle still views
/// exactly the authority.
fn two_ops<const N: usize, const M: usize>() {
    let t = Text::<N>::any();
    let b = t.bytes();
    assume(tables::t_uri_uriref_valid_k(b, N));
    let before = split_ref(b);
    assume(before.authority.is_some());
    let op1 = any_u8() % 3;
    let op2 = any_u8() % 3;
    let a1 = Text::<M>::any();
    let a2 = Text::<M>::any();
    let s1 = if op1 == HOST { true } else { any_bool() };
    let s2 = if op2 == HOST { true } else { any_bool() };
    if s1 {
        assume(arg_valid(op1, a1.bytes()));
    }
    if s2 {
        assume(arg_valid(op2, a2.bytes()));
    }
    // reference: a fresh handle per edit
    let mut y = unsafe { UriRefBuf::new_unchecked(vec_of(b)) };
    {
        let mut am = y.authority_mut().unwrap();
        apply!(am, op1, s1, a1.bytes());
    }
    {
        let mut am = y.authority_mut().unwrap();
        apply!(am, op2, s2, a2.bytes());
    }
    // subject: both edits through one handle
    let mut x = unsafe { UriRefBuf::new_unchecked(vec_of(b)) };
    let (hp, hl) = {
        let mut am = x.authority_mut().unwrap();
        apply!(am, op1, s1, a1.bytes());
        apply!(am, op2, s2, a2.bytes());
        let v = am.as_authority().as_bytes();
        (v.as_ptr(), v.len())
    };
    assert!(bytes_eq(x.as_bytes(), y.as_bytes()), "C11: two edits through one handle differ from the same edits through fresh handles");
    let fresh = x.authority().unwrap().as_bytes();
    assert!(hp == fresh.as_ptr() && hl == fresh.len(), "C11: the handle lost track of the authority after two edits");
    cover!(op1 != op2, "two different sub-components");
    cover!(op1 == HOST && op2 == PORT && s2, "host then port");
    forget(x);
    forget(y);
}

// @h prop=C11,C04 tier=thorough kind=check reach=0 timeout=5400 mem=24 bound="UriRefBuf with authority, text <= 6 bytes, two symbolic ops through one handle, arguments <= 2 bytes" encodes="AuthorityMutImpl::{set_userinfo,set_host,set_port} in sequence on one handle (start/end bookkeeping)"
#[cfg_attr(kani, kani::proof)]
#[cfg_attr(kani, kani::unwind(17))]
#[cfg_attr(kani, kani::stub(std::vec::Vec::resize, crate::stubs::vec_resize))]
pub fn c11_two_ops_n6() {
    two_ops::<6, 2>()
}
