//! C01 (glue) / C14 (routes in) — every construction route returns Ok exactly
//! when `validate` accepts, keeps the text byte-for-byte (borrowed: same
//! pointer and length) and hands the untouched input back inside the error.
//!
//! The *language* accepted by `validate` is Engine D's subject.  Here the
//! verdict oracle is the table twin extracted from the very same generated
//! automaton: for the 14 small types the real compiled `validate` runs and the
//! solver thereby also shows it equal to the extracted automaton on every input
//! within the bound; for the big byte-based types `validate` is stubbed by its
//! twin; for the big char-based types by an arbitrary verdict.
use crate::serde_drv::{Feed, Mode, E};
use crate::sym::{any_bool, any_u8, as_str, assume, bytes_eq, vec_of, Text};
use crate::{cover, tables};
use iref_core::{iri, uri};
use serde::Deserialize;
use std::convert::TryFrom;
use std::mem::forget;
use std::str::FromStr;

macro_rules! same {
    ($got:expr, $b:expr) => {
        $got.as_ptr() == $b.as_ptr() && $got.len() == $b.len()
    };
}

macro_rules! check_borrowed {
    ($res:expr, $b:expr, $valid:expr, $route:literal) => {
        match $res {
            Ok(x) => {
                assert!($valid, concat!($route, ": accepted an input validate rejects"));
                assert!(same!(x.as_bytes(), $b), concat!($route, ": accepted value is not exactly the caller's input"));
            }
            Err(e) => {
                assert!(!$valid, concat!($route, ": rejected an input validate accepts"));
                assert!(same!(AsRef::<[u8]>::as_ref(e.0), $b), concat!($route, ": error does not carry the untouched input"));
            }
        }
    };
}

macro_rules! check_owned {
    ($res:expr, $p:expr, $b:expr, $valid:expr, $route:literal) => {
        match $res {
            Ok(x) => {
                assert!($valid, concat!($route, ": accepted an input validate rejects"));
                assert!(x.as_bytes().as_ptr() == $p && x.as_bytes().len() == $b.len() && bytes_eq(x.as_bytes(), $b), concat!($route, ": accepted value does not keep the buffer byte-for-byte"));
                forget(x);
            }
            Err(e) => {
                assert!(!$valid, concat!($route, ": rejected an input validate accepts"));
                let r: &[u8] = e.0.as_ref();
                assert!(r.as_ptr() == $p && bytes_eq(r, $b), concat!($route, ": error does not hand the untouched buffer back"));
                forget(e);
            }
        }
    };
}

macro_rules! check_copied {
    ($res:expr, $b:expr, $valid:expr, $route:literal) => {
        match $res {
            Ok(x) => {
                assert!($valid, concat!($route, ": accepted an input validate rejects"));
                assert!(bytes_eq(x.as_bytes(), $b), concat!($route, ": accepted value differs from the input text"));
                forget(x);
            }
            Err(e) => {
                assert!(!$valid, concat!($route, ": rejected an input validate accepts"));
                let r: &[u8] = e.0.as_ref();
                assert!(bytes_eq(r, $b), concat!($route, ": error does not carry the input text"));
                forget(e);
            }
        }
    };
}

/// All routes of a byte-based type.
macro_rules! routes_u8 {
    ($T:ty, $TB:ty, $b:expr, $valid:expr) => {{
        let b: &[u8] = $b;
        let valid: bool = $valid;
        check_borrowed!(<$T>::new(b), b, valid, "new(&[u8])");
        check_borrowed!(<&$T>::try_from(b), b, valid, "TryFrom<&[u8]>");
        let v = vec_of(b);
        let p = v.as_ptr();
        check_owned!(<$TB>::new(v), p, b, valid, "owned new(Vec<u8>)");
        let v = vec_of(b);
        let p = v.as_ptr();
        check_owned!(<$TB>::try_from(v), p, b, valid, "TryFrom<Vec<u8>>");
        if tables::t_utf8_valid(b) {
            let s = as_str(b);
            check_borrowed!(<&$T>::try_from(s), b, valid, "TryFrom<&str>");
            let st = unsafe { String::from_utf8_unchecked(vec_of(b)) };
            let p = st.as_ptr();
            check_owned!(<$TB>::try_from(st), p, b, valid, "TryFrom<String>");
            check_copied!(<$TB>::from_str(s), b, valid, "FromStr");
        }
    }};
}

/// All routes of a str-based (IRI family) type; `b` is well-formed UTF-8.
macro_rules! routes_str {
    ($T:ty, $TB:ty, $b:expr, $valid:expr) => {{
        let b: &[u8] = $b;
        let valid: bool = $valid;
        let s = as_str(b);
        check_borrowed!(<$T>::new(s), b, valid, "new(&str)");
        check_borrowed!(<&$T>::try_from(s), b, valid, "TryFrom<&str>");
        let st = unsafe { String::from_utf8_unchecked(vec_of(b)) };
        let p = st.as_ptr();
        check_owned!(<$TB>::new(st), p, b, valid, "owned new(String)");
        let st = unsafe { String::from_utf8_unchecked(vec_of(b)) };
        let p = st.as_ptr();
        check_owned!(<$TB>::try_from(st), p, b, valid, "TryFrom<String>");
        check_copied!(<$TB>::from_str(s), b, valid, "FromStr");
    }};
}

macro_rules! small_u8 {
    ($name:ident, $T:ty, $TB:ty, $table:ident, $n:expr) => {
        fn $name() {
            let t = Text::<$n>::any();
            let b = t.bytes();
            let valid = tables::$table(b);
            routes_u8!($T, $TB, b, valid);
            cover!(valid && b.len() == $n, "accepted, maximal length");
            cover!(!valid, "rejected");
        }
    };
}

macro_rules! small_str {
    ($name:ident, $T:ty, $TB:ty, $table:ident, $n:expr) => {
        fn $name() {
            let t = Text::<$n>::any();
            let b = t.bytes();
            assume(tables::t_utf8_valid(b));
            let valid = tables::$table(b);
            routes_str!($T, $TB, b, valid);
            cover!(valid && b.len() >= 3 && b[0] >= 0xE0, "accepted, starts with a 3-4 byte scalar");
            cover!(!valid, "rejected");
        }
    };
}

// ---- the 9 small byte-based types: the real generated validate runs
small_u8!(c01_glue_uri_scheme_n6_body, uri::Scheme, uri::SchemeBuf, t_uri_scheme_valid, 6);
// @h prop=C01,C14 tier=quick kind=check bound="any byte string <= 6 bytes" encodes="uri::Scheme::{validate,new};SchemeBuf::new;TryFrom<&[u8]>,<&str>,<Vec<u8>>,<String>;FromStr"
#[cfg_attr(kani, kani::proof)]
#[cfg_attr(kani, kani::unwind(8))]
#[cfg_attr(kani, kani::stub(<[u8]>::to_vec, crate::stubs::slice_to_vec))]
pub fn c01_glue_uri_scheme_n6() {
    c01_glue_uri_scheme_n6_body()
}

small_u8!(c01_glue_uri_segment_n6_body, uri::Segment, uri::SegmentBuf, t_uri_segment_valid, 6);
// @h prop=C01,C14 tier=quick kind=check bound="any byte string <= 6 bytes" encodes="uri::Segment::{validate,new};SegmentBuf::new;TryFrom/FromStr routes"
#[cfg_attr(kani, kani::proof)]
#[cfg_attr(kani, kani::unwind(8))]
#[cfg_attr(kani, kani::stub(<[u8]>::to_vec, crate::stubs::slice_to_vec))]
pub fn c01_glue_uri_segment_n6() {
    c01_glue_uri_segment_n6_body()
}

small_u8!(c01_glue_uri_path_n6_body, uri::Path, uri::PathBuf, t_uri_path_valid, 6);
// @h prop=C01,C14 tier=thorough kind=check bound="any byte string <= 6 bytes" encodes="uri::Path::{validate,new};PathBuf::new;TryFrom/FromStr routes"
#[cfg_attr(kani, kani::proof)]
#[cfg_attr(kani, kani::unwind(8))]
#[cfg_attr(kani, kani::stub(<[u8]>::to_vec, crate::stubs::slice_to_vec))]
pub fn c01_glue_uri_path_n6() {
    c01_glue_uri_path_n6_body()
}

small_u8!(c01_glue_uri_query_n6_body, uri::Query, uri::QueryBuf, t_uri_query_valid, 6);
// @h prop=C01,C14 tier=thorough kind=check bound="any byte string <= 6 bytes" encodes="uri::Query::{validate,new};QueryBuf routes"
#[cfg_attr(kani, kani::proof)]
#[cfg_attr(kani, kani::unwind(8))]
#[cfg_attr(kani, kani::stub(<[u8]>::to_vec, crate::stubs::slice_to_vec))]
pub fn c01_glue_uri_query_n6() {
    c01_glue_uri_query_n6_body()
}

small_u8!(c01_glue_uri_fragment_n6_body, uri::Fragment, uri::FragmentBuf, t_uri_fragment_valid, 6);
// @h prop=C01,C14 tier=thorough kind=check bound="any byte string <= 6 bytes" encodes="uri::Fragment::{validate,new};FragmentBuf routes"
#[cfg_attr(kani, kani::proof)]
#[cfg_attr(kani, kani::unwind(8))]
#[cfg_attr(kani, kani::stub(<[u8]>::to_vec, crate::stubs::slice_to_vec))]
pub fn c01_glue_uri_fragment_n6() {
    c01_glue_uri_fragment_n6_body()
}

small_u8!(c01_glue_uri_userinfo_n6_body, uri::UserInfo, uri::UserInfoBuf, t_uri_userinfo_valid, 6);
// @h prop=C01,C14 tier=thorough kind=check bound="any byte string <= 6 bytes" encodes="uri::UserInfo::{validate,new};UserInfoBuf routes"
#[cfg_attr(kani, kani::proof)]
#[cfg_attr(kani, kani::unwind(8))]
#[cfg_attr(kani, kani::stub(<[u8]>::to_vec, crate::stubs::slice_to_vec))]
pub fn c01_glue_uri_userinfo_n6() {
    c01_glue_uri_userinfo_n6_body()
}

small_u8!(c01_glue_uri_port_n6_body, uri::Port, uri::PortBuf, t_uri_port_valid, 6);
// @h prop=C01,C14 tier=thorough kind=check bound="any byte string <= 6 bytes" encodes="uri::Port::{validate,new};PortBuf routes"
#[cfg_attr(kani, kani::proof)]
#[cfg_attr(kani, kani::unwind(8))]
#[cfg_attr(kani, kani::stub(<[u8]>::to_vec, crate::stubs::slice_to_vec))]
pub fn c01_glue_uri_port_n6() {
    c01_glue_uri_port_n6_body()
}

// ---- the 5 small str-based types: real validate over str::chars()
small_str!(c01_glue_iri_segment_n5_body, iri::Segment, iri::SegmentBuf, t_iri_segment_valid, 5);
// @h prop=C01,C14 tier=thorough kind=check bound="any UTF-8 string <= 5 bytes" encodes="iri::Segment::{validate,new} over chars;SegmentBuf::new;TryFrom<&str>,<String>;FromStr"
#[cfg_attr(kani, kani::proof)]
#[cfg_attr(kani, kani::unwind(7))]
#[cfg_attr(kani, kani::stub(<[u8]>::to_vec, crate::stubs::slice_to_vec))]
pub fn c01_glue_iri_segment_n5() {
    c01_glue_iri_segment_n5_body()
}

small_str!(c01_glue_iri_query_n5_body, iri::Query, iri::QueryBuf, t_iri_query_valid, 5);
// @h prop=C01,C14 tier=thorough kind=check bound="any UTF-8 string <= 5 bytes" encodes="iri::Query::{validate,new} over chars (iprivate range);QueryBuf routes"
#[cfg_attr(kani, kani::proof)]
#[cfg_attr(kani, kani::unwind(7))]
#[cfg_attr(kani, kani::stub(<[u8]>::to_vec, crate::stubs::slice_to_vec))]
pub fn c01_glue_iri_query_n5() {
    c01_glue_iri_query_n5_body()
}

small_str!(c01_glue_iri_path_n5_body, iri::Path, iri::PathBuf, t_iri_path_valid, 5);
// @h prop=C01,C14 tier=thorough kind=check bound="any UTF-8 string <= 5 bytes" encodes="iri::Path::{validate,new};PathBuf routes"
#[cfg_attr(kani, kani::proof)]
#[cfg_attr(kani, kani::unwind(7))]
#[cfg_attr(kani, kani::stub(<[u8]>::to_vec, crate::stubs::slice_to_vec))]
pub fn c01_glue_iri_path_n5() {
    c01_glue_iri_path_n5_body()
}

small_str!(c01_glue_iri_fragment_n5_body, iri::Fragment, iri::FragmentBuf, t_iri_fragment_valid, 5);
// @h prop=C01,C14 tier=thorough kind=check bound="any UTF-8 string <= 5 bytes" encodes="iri::Fragment::{validate,new};FragmentBuf routes"
#[cfg_attr(kani, kani::proof)]
#[cfg_attr(kani, kani::unwind(7))]
#[cfg_attr(kani, kani::stub(<[u8]>::to_vec, crate::stubs::slice_to_vec))]
pub fn c01_glue_iri_fragment_n5() {
    c01_glue_iri_fragment_n5_body()
}

small_str!(c01_glue_iri_userinfo_n5_body, iri::UserInfo, iri::UserInfoBuf, t_iri_userinfo_valid, 5);
// @h prop=C01,C14 tier=thorough kind=check bound="any UTF-8 string <= 5 bytes" encodes="iri::UserInfo::{validate,new};UserInfoBuf routes"
#[cfg_attr(kani, kani::proof)]
#[cfg_attr(kani, kani::unwind(7))]
#[cfg_attr(kani, kani::stub(<[u8]>::to_vec, crate::stubs::slice_to_vec))]
pub fn c01_glue_iri_userinfo_n5() {
    c01_glue_iri_userinfo_n5_body()
}

small_str!(c01_glue_iri_segment_n4_body, iri::Segment, iri::SegmentBuf, t_iri_segment_valid, 4);
// @h prop=C01,C14 tier=quick kind=check bound="any UTF-8 string <= 4 bytes (one 4-byte scalar fits)" encodes="iri::Segment::{validate,new} over chars;SegmentBuf::new;TryFrom<&str>,<String>;FromStr"
#[cfg_attr(kani, kani::proof)]
#[cfg_attr(kani, kani::unwind(6))]
#[cfg_attr(kani, kani::stub(<[u8]>::to_vec, crate::stubs::slice_to_vec))]
pub fn c01_glue_iri_segment_n4() {
    c01_glue_iri_segment_n4_body()
}

small_u8!(c01_glue_uriref_n6_body, uri::UriRef, uri::UriRefBuf, t_uri_uriref_valid, 6);
// @h prop=C01,C14 tier=quick kind=check bound="any byte string <= 6 bytes" encodes="UriRef::new;UriRefBuf::new;TryFrom/FromStr routes (UriRef::validate -> table twin of the same automaton)"
#[cfg_attr(kani, kani::proof)]
#[cfg_attr(kani, kani::unwind(8))]
#[cfg_attr(kani, kani::stub(<[u8]>::to_vec, crate::stubs::slice_to_vec))]
#[cfg_attr(kani, kani::stub(iref_core::uri::UriRef::validate, crate::tables::t_uri_uriref_validate_iter))]
pub fn c01_glue_uriref_n6() {
    c01_glue_uriref_n6_body()
}

// ---- the big byte-based types: validate stubbed by its table twin
small_u8!(c01_glue_uriref_n8_body, uri::UriRef, uri::UriRefBuf, t_uri_uriref_valid, 8);
// @h prop=C01,C14 tier=thorough kind=check bound="any byte string <= 8 bytes" encodes="UriRef::new;UriRefBuf::new;TryFrom/FromStr routes (UriRef::validate -> table twin of the same automaton)"
#[cfg_attr(kani, kani::proof)]
#[cfg_attr(kani, kani::unwind(10))]
#[cfg_attr(kani, kani::stub(<[u8]>::to_vec, crate::stubs::slice_to_vec))]
#[cfg_attr(kani, kani::stub(iref_core::uri::UriRef::validate, crate::tables::t_uri_uriref_validate_iter))]
pub fn c01_glue_uriref_n8() {
    c01_glue_uriref_n8_body()
}

small_u8!(c01_glue_uri_n8_body, uri::Uri, uri::UriBuf, t_uri_uri_valid, 8);
// @h prop=C01,C14 tier=thorough kind=check bound="any byte string <= 8 bytes" encodes="Uri::new;UriBuf::new;routes (Uri::validate -> table twin)"
#[cfg_attr(kani, kani::proof)]
#[cfg_attr(kani, kani::unwind(10))]
#[cfg_attr(kani, kani::stub(<[u8]>::to_vec, crate::stubs::slice_to_vec))]
#[cfg_attr(kani, kani::stub(iref_core::uri::Uri::validate, crate::tables::t_uri_uri_validate_iter))]
pub fn c01_glue_uri_n8() {
    c01_glue_uri_n8_body()
}

small_u8!(c01_glue_uri_authority_n8_body, uri::Authority, uri::AuthorityBuf, t_uri_authority_valid, 8);
// @h prop=C01,C14 tier=thorough kind=check bound="any byte string <= 8 bytes" encodes="uri::Authority::new;AuthorityBuf routes (validate -> table twin)"
#[cfg_attr(kani, kani::proof)]
#[cfg_attr(kani, kani::unwind(10))]
#[cfg_attr(kani, kani::stub(<[u8]>::to_vec, crate::stubs::slice_to_vec))]
#[cfg_attr(kani, kani::stub(iref_core::uri::Authority::validate, crate::tables::t_uri_authority_validate_iter))]
pub fn c01_glue_uri_authority_n8() {
    c01_glue_uri_authority_n8_body()
}

small_u8!(c01_glue_uri_host_n8_body, uri::Host, uri::HostBuf, t_uri_host_valid, 8);
// @h prop=C01,C14 tier=thorough kind=check bound="any byte string <= 8 bytes" encodes="uri::Host::new;HostBuf routes (validate -> table twin)"
#[cfg_attr(kani, kani::proof)]
#[cfg_attr(kani, kani::unwind(10))]
#[cfg_attr(kani, kani::stub(<[u8]>::to_vec, crate::stubs::slice_to_vec))]
#[cfg_attr(kani, kani::stub(iref_core::uri::Host::validate, crate::tables::t_uri_host_validate_iter))]
pub fn c01_glue_uri_host_n8() {
    c01_glue_uri_host_n8_body()
}

// ---- the big str-based types: validate stubbed by an arbitrary verdict
#[cfg(kani)]
pub static mut VERDICT: bool = false;
#[cfg(kani)]
pub fn verdict_char(_input: impl Iterator<Item = char>) -> bool {
    unsafe { VERDICT }
}

macro_rules! big_str {
    ($name:ident, $T:ty, $TB:ty, $n:expr) => {
        fn $name() {
            let t = Text::<$n>::any();
            let b = t.bytes();
            assume(tables::t_utf8_valid(b));
            let v = any_bool();
            #[cfg(kani)]
            let valid = {
                unsafe { VERDICT = v };
                v
            };
            #[cfg(not(kani))]
            let valid = {
                let _ = v;
                <$T>::validate(as_str(b).chars())
            };
            routes_str!($T, $TB, b, valid);
            // from_vec: the same, from raw bytes
            let vv = vec_of(b);
            let p = vv.as_ptr();
            check_owned!(<$TB>::from_vec(vv), p, b, valid, "from_vec(Vec<u8>)");
            cover!(valid, "accepted");
            cover!(!valid, "rejected");
        }
    };
}

big_str!(c01_glue_iriref_n6_body, iri::IriRef, iri::IriRefBuf, 6);
// @h prop=C01,C14 tier=quick kind=check bound="any UTF-8 string <= 6 bytes, any verdict of validate" encodes="IriRef::new;IriRefBuf::{new,from_vec};TryFrom<&str>,<String>;FromStr (IriRef::validate -> arbitrary verdict)"
#[cfg_attr(kani, kani::proof)]
#[cfg_attr(kani, kani::unwind(8))]
#[cfg_attr(kani, kani::stub(<[u8]>::to_vec, crate::stubs::slice_to_vec))]
#[cfg_attr(kani, kani::stub(iref_core::iri::IriRef::validate, verdict_char))]
pub fn c01_glue_iriref_n6() {
    c01_glue_iriref_n6_body()
}

big_str!(c01_glue_iri_n6_body, iri::Iri, iri::IriBuf, 6);
// @h prop=C01,C14 tier=thorough kind=check bound="any UTF-8 string <= 6 bytes, any verdict of validate" encodes="Iri::new;IriBuf::{new,from_vec};routes (Iri::validate -> arbitrary verdict)"
#[cfg_attr(kani, kani::proof)]
#[cfg_attr(kani, kani::unwind(8))]
#[cfg_attr(kani, kani::stub(<[u8]>::to_vec, crate::stubs::slice_to_vec))]
#[cfg_attr(kani, kani::stub(iref_core::iri::Iri::validate, verdict_char))]
pub fn c01_glue_iri_n6() {
    c01_glue_iri_n6_body()
}

/// from_vec on *any* byte string, including ill-formed UTF-8: Ok exactly when
/// the bytes are well-formed UTF-8 and validate accepts; the bytes come back
/// untouched in the error.
pub fn from_vec_any_bytes<const N: usize>() {
    let t = Text::<N>::any();
    let b = t.bytes();
    let v = any_bool();
    let utf8 = tables::t_utf8_valid(b);
    #[cfg(kani)]
    let valid = {
        unsafe { VERDICT = v };
        utf8 && v
    };
    #[cfg(not(kani))]
    let valid = {
        let _ = v;
        utf8 && iri::IriRef::validate(as_str(b).chars())
    };
    let vv = vec_of(b);
    check_copied!(iri::IriRefBuf::from_vec(vv), b, valid, "from_vec(any bytes)");
    cover!(!utf8, "ill-formed UTF-8");
    cover!(utf8 && b.len() > 1 && b[0] >= 0xC2, "well-formed multi-byte");
}

// @h prop=C01,C14 tier=quick kind=check bound="any byte string <= 4 bytes incl. ill-formed UTF-8" timeout=2400 encodes="IriRefBuf::from_vec;String::from_utf8 (real);FromUtf8Error::into_bytes"
#[cfg_attr(kani, kani::proof)]
#[cfg_attr(kani, kani::unwind(6))]
#[cfg_attr(kani, kani::stub(iref_core::iri::IriRef::validate, verdict_char))]
pub fn c01_from_vec_any_bytes_n4() {
    from_vec_any_bytes::<4>()
}

// ---- serde visitors
fn serde_mode() -> Mode {
    match any_u8() % 6 {
        0 => Mode::BorrowedStr,
        1 => Mode::Str,
        2 => Mode::String,
        3 => Mode::BorrowedBytes,
        4 => Mode::Bytes,
        _ => Mode::ByteBuf,
    }
}

macro_rules! serde_u8 {
    ($name:ident, $T:ty, $TB:ty, $table:ident, $n:expr) => {
        /// Deserialisation accepts exactly what the validating constructor
        /// accepts, through every visitor entry point, borrowed and owned.
        fn $name() {
            let t = Text::<$n>::any();
            let b = t.bytes();
            let mode = serde_mode();
            let is_str = matches!(mode, Mode::BorrowedStr | Mode::Str | Mode::String);
            if is_str {
                assume(tables::t_utf8_valid(b));
            }
            let valid = tables::$table(b);
            let owned = <$TB>::deserialize(Feed { mode, bytes: b });
            match owned {
                Ok(x) => {
                    assert!(valid, "serde (owned): produced a value validate rejects");
                    assert!(bytes_eq(x.as_bytes(), b), "serde (owned): text not preserved");
                    forget(x);
                }
                Err(_) => assert!(!valid, "serde (owned): rejected an input validate accepts"),
            }
            if matches!(mode, Mode::BorrowedStr | Mode::BorrowedBytes) {
                let borrowed = <&$T>::deserialize(Feed { mode, bytes: b });
                match borrowed {
                    Ok(x) => {
                        assert!(valid, "serde (borrowed): produced a value validate rejects");
                        assert!(same!(x.as_bytes(), b), "serde (borrowed): not the caller's input");
                    }
                    Err(_) => assert!(!valid, "serde (borrowed): rejected an input validate accepts"),
                }
            }
            cover!(valid && is_str, "accepted from a string");
            cover!(valid && !is_str, "accepted from bytes");
            cover!(!valid, "rejected");
        }
    };
}

serde_u8!(c01_serde_uri_segment_n6_body, uri::Segment, uri::SegmentBuf, t_uri_segment_valid, 6);
// @h prop=C01,C14 tier=quick kind=check bound="any byte string <= 6 bytes x 6 visitor entry points" encodes="serde Deserialize for uri::SegmentBuf and &uri::Segment (generated visitors)"
#[cfg_attr(kani, kani::proof)]
#[cfg_attr(kani, kani::unwind(8))]
#[cfg_attr(kani, kani::stub(<[u8]>::to_vec, crate::stubs::slice_to_vec))]
pub fn c01_serde_uri_segment_n6() {
    c01_serde_uri_segment_n6_body()
}

serde_u8!(c01_serde_uriref_n7_body, uri::UriRef, uri::UriRefBuf, t_uri_uriref_valid, 7);
// @h prop=C01,C14 tier=thorough kind=check bound="any byte string <= 7 bytes x 6 visitor entry points" encodes="serde Deserialize for UriRefBuf and &UriRef (validate -> table twin)"
#[cfg_attr(kani, kani::proof)]
#[cfg_attr(kani, kani::unwind(9))]
#[cfg_attr(kani, kani::stub(<[u8]>::to_vec, crate::stubs::slice_to_vec))]
#[cfg_attr(kani, kani::stub(iref_core::uri::UriRef::validate, crate::tables::t_uri_uriref_validate_iter))]
pub fn c01_serde_uriref_n7() {
    c01_serde_uriref_n7_body()
}
