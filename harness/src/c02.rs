//! C02 — component accessors return the RFC 3986 generic-syntax decomposition.
//! (The pointer-range assertions are also C20's sub-slice/ordering claim.)
use crate::adapt::RefLike;
use crate::oracle::{split_ref, tiles, RefSplit, R};
use crate::sym::{as_str, assume, bytes_eq, is_subslice, vec_of, Text};
use crate::{cover, tables};
use iref_core::{iri, uri, Iri, IriBuf, IriRef, IriRefBuf, Uri, UriBuf, UriRef, UriRefBuf};

#[inline(always)]
fn opt_is(whole: &[u8], got: Option<&[u8]>, want: Option<R>) -> bool {
    match (got, want) {
        (None, None) => true,
        (Some(g), Some((s, e))) => is_subslice(whole, g, s, e),
        _ => false,
    }
}

/// Every accessor and every `parts()` field is present exactly when RFC 3986
/// Appendix B says so and is exactly that sub-slice of the text; the five
/// ranges tile the text with the section 5.3 delimiters (recomposition).
pub fn check_decomposition<T: RefLike + ?Sized>(x: &T, want: &RefSplit) {
    let w = x.text();
    assert!(opt_is(w, x.scheme_b(), want.scheme), "scheme() differs from RFC 3986 App. B");
    assert!(opt_is(w, x.authority_b(), want.authority), "authority() differs from RFC 3986 App. B");
    assert!(
        is_subslice(w, x.path_b(), want.path.0, want.path.1),
        "path() differs from RFC 3986 App. B"
    );
    assert!(opt_is(w, x.query_b(), want.query), "query() differs from RFC 3986 App. B");
    assert!(opt_is(w, x.fragment_b(), want.fragment), "fragment() differs from RFC 3986 App. B");
    let (s, a, p, q, f) = x.parts_b();
    assert!(opt_is(w, s, want.scheme), "parts().scheme differs from RFC 3986 App. B");
    assert!(opt_is(w, a, want.authority), "parts().authority differs from RFC 3986 App. B");
    assert!(is_subslice(w, p, want.path.0, want.path.1), "parts().path differs from RFC 3986 App. B");
    assert!(opt_is(w, q, want.query), "parts().query differs from RFC 3986 App. B");
    assert!(opt_is(w, f, want.fragment), "parts().fragment differs from RFC 3986 App. B");
}

fn shape_covers(b: &[u8], s: &RefSplit) {
    cover!(
        s.scheme.is_some() && s.authority.is_some() && s.query.is_some() && s.fragment.is_some() && s.path.1 > s.path.0,
        "all five components present, path non-empty"
    );
    cover!(s.scheme.is_none() == s.scheme.is_none() && s.authority.is_some() && s.path.1 == s.path.0, "authority with an empty path");
    cover!(matches!(s.query, Some((a, e)) if a == e), "present-but-empty query");
    cover!(matches!(s.authority, Some((a, e)) if a == e), "present-but-empty authority");
    cover!(matches!(s.fragment, Some((a, e)) if e > a && b[a] == b'?'), "'?' inside the fragment");
    cover!(matches!(s.query, Some((a, e)) if e > a && b[a] == b'/'), "'/' inside the query");
    cover!(s.authority.is_none() && s.path.1 > s.path.0 + 2 && b[s.path.1 - 1] == b':', "':' in a later segment of the path");
}

macro_rules! body {
    ($fname:ident, $table:ident, $b:ident => $mk:expr) => {
        fn $fname<const N: usize>() {
            let t = Text::<N>::any();
            let $b = t.bytes();
            let b = $b;
            assume(tables::$table(b, N));
            let want = split_ref(b);
            assert!(tiles(b, &want), "oracle self-check: App. B ranges tile the text");
            let x = $mk;
            assert!(bytes_eq(x.text(), b), "the value does not hold exactly the input text");
            check_decomposition(&*x, &want);
            shape_covers(b, &want);
            cover!(b.len() == N, "maximal length");
            std::mem::forget(x);
        }
    };
}

body!(uriref_body, t_uri_uriref_valid_k, b => unsafe { UriRef::new_unchecked(b) });
body!(uri_body, t_uri_uri_valid_k, b => unsafe { Uri::new_unchecked(b) });
body!(iriref_body, t_iri_iriref_valid_k, b => unsafe { IriRef::new_unchecked(as_str(b)) });
body!(iri_body, t_iri_iri_valid_k, b => unsafe { Iri::new_unchecked(as_str(b)) });
body!(urirefbuf_body, t_uri_uriref_valid_k, b => unsafe { Box::new(UriRefBuf::new_unchecked(vec_of(b))) });
body!(uribuf_body, t_uri_uri_valid_k, b => unsafe { Box::new(UriBuf::new_unchecked(vec_of(b))) });
body!(irirefbuf_body, t_iri_iriref_valid_k, b => unsafe {
    Box::new(IriRefBuf::new_unchecked(String::from_utf8_unchecked(vec_of(b))))
});
body!(iribuf_body, t_iri_iri_valid_k, b => unsafe { Box::new(IriBuf::new_unchecked(String::from_utf8_unchecked(vec_of(b)))) });

const ENC: &str = "";

// @h prop=C02,C20 tier=quick kind=check bound="UriRef text <= 12 bytes" encodes="parse::{scheme_authority_or_path,authority_or_path,find_scheme,find_authority,find_path,path,find_query,query,find_fragment,fragment,reference_parts};RiRefImpl::{scheme_opt,authority,path,query,fragment};UriRef::parts"
#[cfg_attr(kani, kani::proof)]
#[cfg_attr(kani, kani::unwind(14))]
pub fn c02_uriref_n12() {
    uriref_body::<12>()
}

// @h prop=C02,C20:thorough tier=thorough kind=check timeout=2400 bound="UriRef text <= 16 bytes" encodes="same functions as c02_uriref_n12"
#[cfg_attr(kani, kani::proof)]
#[cfg_attr(kani, kani::unwind(18))]
pub fn c02_uriref_n16() {
    uriref_body::<16>()
}

// @h prop=C02,C20:thorough tier=quick kind=check bound="Uri text <= 10 bytes" encodes="parse::{scheme,parts,authority_or_path,path,query,fragment,find_authority,find_path,find_query,find_fragment};RiImpl::scheme;Uri::parts"
#[cfg_attr(kani, kani::proof)]
#[cfg_attr(kani, kani::unwind(12))]
pub fn c02_uri_n10() {
    uri_body::<10>()
}

// @h prop=C02,C20:thorough tier=quick kind=check bound="IriRef text <= 10 bytes (UTF-8, incl. 2-4 byte scalars)" encodes="same parse::* functions via RiRefImpl for IriRef;IriRef::parts"
#[cfg_attr(kani, kani::proof)]
#[cfg_attr(kani, kani::unwind(12))]
pub fn c02_iriref_n10() {
    iriref_body::<10>()
}

// @h prop=C02,C20:thorough tier=thorough kind=check timeout=2400 bound="IriRef text <= 14 bytes" encodes="same as c02_iriref_n10"
#[cfg_attr(kani, kani::proof)]
#[cfg_attr(kani, kani::unwind(16))]
pub fn c02_iriref_n14() {
    iriref_body::<14>()
}

// @h prop=C02,C20:thorough tier=quick kind=check bound="Iri text <= 8 bytes" encodes="parse::{scheme,parts} via RiImpl for Iri;Iri::parts"
#[cfg_attr(kani, kani::proof)]
#[cfg_attr(kani, kani::unwind(10))]
pub fn c02_iri_n8() {
    iri_body::<8>()
}

// @h prop=C02 tier=quick kind=check bound="UriRefBuf text <= 10 bytes (owned view)" encodes="RiRefImpl for UriRefBuf (own impl);UriRefBuf deref accessors"
#[cfg_attr(kani, kani::proof)]
#[cfg_attr(kani, kani::unwind(12))]
pub fn c02_urirefbuf_n10() {
    urirefbuf_body::<10>()
}

// @h prop=C02 tier=thorough kind=check bound="UriBuf text <= 12 bytes (owned view)" encodes="RiRefImpl/RiImpl for UriBuf"
#[cfg_attr(kani, kani::proof)]
#[cfg_attr(kani, kani::unwind(14))]
pub fn c02_uribuf_n12() {
    uribuf_body::<12>()
}

// @h prop=C02 tier=quick kind=check bound="IriRefBuf text <= 8 bytes (owned view)" encodes="RiRefImpl for IriRefBuf"
#[cfg_attr(kani, kani::proof)]
#[cfg_attr(kani, kani::unwind(10))]
pub fn c02_irirefbuf_n8() {
    irirefbuf_body::<8>()
}

// @h prop=C02 tier=thorough kind=check bound="IriBuf text <= 12 bytes (owned view)" encodes="RiRefImpl/RiImpl for IriBuf"
#[cfg_attr(kani, kani::proof)]
#[cfg_attr(kani, kani::unwind(14))]
pub fn c02_iribuf_n12() {
    iribuf_body::<12>()
}

/// Each returned component is itself a valid value of its component type
/// (real small-DFA constructors; Authority by its table twin).
fn components_valid<const N: usize>() {
    let t = Text::<N>::any();
    let b = t.bytes();
    assume(tables::t_uri_uriref_valid_k(b, N));
    let x = unsafe { UriRef::new_unchecked(b) };
    let p = x.parts();
    if let Some(s) = p.scheme {
        assert!(uri::Scheme::new(s.as_bytes()).is_ok(), "returned scheme is not a valid Scheme");
    }
    if let Some(a) = p.authority {
        assert!(tables::t_uri_authority_valid_k(a.as_bytes(), N), "returned authority is not a valid Authority");
    }
    assert!(uri::Path::new(p.path.as_bytes()).is_ok(), "returned path is not a valid Path");
    if let Some(q) = p.query {
        assert!(uri::Query::new(q.as_bytes()).is_ok(), "returned query is not a valid Query");
    }
    if let Some(f) = p.fragment {
        assert!(uri::Fragment::new(f.as_bytes()).is_ok(), "returned fragment is not a valid Fragment");
    }
    cover!(p.scheme.is_some() && p.authority.is_some() && p.query.is_some() && p.fragment.is_some(), "all optional parts present");
}

// @h prop=C02 tier=quick kind=check bound="UriRef text <= 8 bytes" encodes="UriRef::parts;Scheme::new;Path::new;Query::new;Fragment::new (real generated validate of the small types)"
#[cfg_attr(kani, kani::proof)]
#[cfg_attr(kani, kani::unwind(10))]
pub fn c02_uriref_components_valid_n8() {
    components_valid::<8>()
}
