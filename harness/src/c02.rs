//! C02 — component accessors return the RFC 3986 generic-syntax decomposition.
//! (The pointer-range assertions are also C20's sub-slice/ordering claim.)
use crate::adapt::RefLike;
use crate::oracle::{split_ref, tiles, RefSplit, R};
use crate::sym::{assume, is_subslice, Text};
use crate::{cover, tables};
use iref_core::{iri, uri, Iri, IriBuf, IriRef, IriRefBuf, Uri, UriBuf, UriRef, UriRefBuf};

#[inline(always)]
fn opt_is(whole: &[u8], got: Option<&[u8]>, want: Option<R>) -> bool {
    match (got, want) {
        (None, None) => true,
        (Some(g), Some((s, e))) => is_subslice(whole, g, s, e),
        _ => false,
    }
}

/// Every accessor and every `parts()` field is present exactly when RFC 3986
/// Appendix B says so and is exactly that sub-slice of the text; the five
/// ranges tile the text with the section 5.3 delimiters (recomposition).
pub fn check_decomposition<T: RefLike + ?Sized>(x: &T, want: &RefSplit) {
    let w = x.text();
    assert!(opt_is(w, x.scheme_b(), want.scheme), "scheme() differs from RFC 3986 App. B");
    assert!(opt_is(w, x.authority_b(), want.authority), "authority() differs from RFC 3986 App. B");
    assert!(
        is_subslice(w, x.path_b(), want.path.0, want.path.1),
        "path() differs from RFC 3986 App. B"
    );
    assert!(opt_is(w, x.query_b(), want.query), "query() differs from RFC 3986 App. B");
    assert!(opt_is(w, x.fragment_b(), want.fragment), "fragment() differs from RFC 3986 App. B");
    let (s, a, p, q, f) = x.parts_b();
    assert!(opt_is(w, s, want.scheme), "parts().scheme differs from RFC 3986 App. B");
    assert!(opt_is(w, a, want.authority), "parts().authority differs from RFC 3986 App. B");
    assert!(is_subslice(w, p, want.path.0, want.path.1), "parts().path differs from RFC 3986 App. B");
    assert!(opt_is(w, q, want.query), "parts().query differs from RFC 3986 App. B");
    assert!(opt_is(w, f, want.fragment), "parts().fragment differs from RFC 3986 App. B");
}

fn shape_covers(b: &[u8], s: &RefSplit) {
    cover!(
        s.scheme.is_some() && s.authority.is_some() && s.query.is_some() && s.fragment.is_some() && s.path.1 > s.path.0,
        "all five components present, path non-empty"
    );
    cover!(s.scheme.is_none() && s.authority.is_some(), "network-path reference");
    cover!(matches!(s.query, Some((a, e)) if a == e), "present-but-empty query");
    cover!(matches!(s.authority, Some((a, e)) if a == e), "present-but-empty authority");
    cover!(matches!(s.fragment, Some((a, e)) if e > a && b[a] == b'?'), "'?' inside the fragment");
    cover!(matches!(s.query, Some((a, e)) if e > a && b[a] == b'/'), "'/' inside the query");
    cover!(
        s.scheme.is_none() && s.authority.is_none() && s.path.1 > s.path.0 + 2 && b[s.path.1 - 1] == b':',
        "':' in a later segment of a relative path"
    );
}

fn uriref_body<const N: usize>() {
    let t = Text::<N>::any();
    let b = t.bytes();
    assume(tables::t_uri_uriref_valid(b));
    let want = split_ref(b);
    assert!(tiles(b, &want), "oracle self-check: App. B ranges tile the text");
    let x = unsafe { UriRef::new_unchecked(b) };
    assert!(x.as_bytes().as_ptr() == b.as_ptr() && x.as_bytes().len() == b.len());
    check_decomposition(x, &want);
    shape_covers(b, &want);
    cover!(b.len() == N, "maximal length");
}

// @h prop=C02,C20 tier=quick kind=check bound="UriRef text <= 12 bytes" encodes="parse::{scheme_authority_or_path,authority_or_path,find_scheme,find_authority,find_path,path,find_query,query,find_fragment,fragment,reference_parts};RiRefImpl::{scheme_opt,authority,path,query,fragment};UriRef::parts"
#[cfg_attr(kani, kani::proof)]
#[cfg_attr(kani, kani::unwind(14))]
pub fn c02_uriref_n12() {
    uriref_body::<12>()
}

// @h prop=C02,C20 tier=thorough kind=check bound="UriRef text <= 16 bytes" encodes="same as c02_uriref_n12"
#[cfg_attr(kani, kani::proof)]
#[cfg_attr(kani, kani::unwind(18))]
pub fn c02_uriref_n16() {
    uriref_body::<16>()
}
