//! C18 — data URL views are coherent and reassemble the original.
use crate::sym::{as_str, assume, bytes_eq, is_subslice, vec_of, Text};
use crate::{cover, tables};
use iref_core::uri::data::{DataUrl, DataUrlBuf};
use std::borrow::Cow;
use std::mem::forget;

fn is_media_char(c: u8) -> bool {
    c.is_ascii_alphanumeric() || matches!(c, b'/' | b'!' | b'#' | b'$' | b'&' | b'-' | b'+' | b'^' | b'_' | b'.')
}

/// `data:` media-type-chars [`;base64`] `,` data  ->  (media end, base64, data start)
fn shape(b: &[u8]) -> Option<(usize, bool, usize)> {
    if b.len() < 5 || !bytes_eq(&b[..5], b"data:") {
        return None;
    }
    let mut i = 5;
    while i < b.len() && is_media_char(b[i]) {
        i += 1;
    }
    if i < b.len() && b[i] == b',' {
        return Some((i, false, i + 1));
    }
    if i + 8 <= b.len() && bytes_eq(&b[i..i + 8], b";base64,") {
        return Some((i, true, i + 8));
    }
    None
}

fn opt_same(whole: &[u8], got: Option<&str>, s: usize, e: usize) -> bool {
    match got {
        None => s == e,
        Some(g) => e > s && is_subslice(whole, g.as_bytes(), s, e),
    }
}

/// Borrowed form: acceptance = shape oracle; re-scanning accessors = parts() =
/// oracle split; reassembly; decoded_data of a non-base64 URL.
fn data_url_borrowed<const N: usize, const PREFIXED: bool, const DECODE: bool>() {
    let t = Text::<N>::any();
    let b = t.bytes();
    if PREFIXED {
        // only texts that start with `data:` (everything else is decided, for
        // shorter texts, by the unprefixed instance)
        assume(b.len() >= 5 && b[0] == b'd' && b[1] == b'a' && b[2] == b't' && b[3] == b'a' && b[4] == b':');
    }
    let want = if tables::t_uri_uri_valid_k(b, N) { shape(b) } else { None };
    match (DataUrl::new(b), want) {
        (Err(e), None) => {
            assert!(e.0.as_ptr() == b.as_ptr() && e.0.len() == b.len(), "C18: rejected input not handed back");
        }
        (Ok(d), Some((me, b64, ds))) => {
            assert!(d.as_str().as_ptr() == b.as_ptr() && d.as_str().len() == b.len(), "C18: the data URL is not the caller's text");
            assert!(opt_same(b, d.media_type(), 5, me), "C18: borrowed media_type()");
            assert!(d.is_base_64_encoded() == b64, "C18: borrowed is_base_64_encoded()");
            assert!(is_subslice(b, d.encoded_data().as_bytes(), ds, b.len()), "C18: borrowed encoded_data()");
            let p = d.parts();
            assert!(opt_same(b, p.media_type, 5, me) && p.base_64 == b64 && is_subslice(b, p.data.as_bytes(), ds, b.len()), "C18: borrowed parts()");
            assert!(ds == me + if b64 { 8 } else { 1 } && b[ds - 1] == b',', "C18: parts do not reassemble the text");
            // decoded_data() links in the base64 engine whatever the flag is: it is
            // only called in the dedicated (thorough) instance
            if DECODE && !b64 {
                match d.decoded_data() {
                    Ok(Cow::Borrowed(x)) => assert!(is_subslice(b, x, ds, b.len()), "C18: decoded_data() of a non-base64 URL is not the data bytes"),
                    _ => panic!("C18: decoded_data() of a non-base64 URL is not a borrowed view of the data"),
                }
            }
            cover!(b64 || N < 13, "base64 flagged (needs at least 13 bytes)");
            cover!(!b64 && me > 5 && ds < b.len(), "media type and data present");
            cover!(!b64 && ds + 2 < b.len() && b[ds + 1] == b',', "a ',' inside the data");
        }
        (Ok(_), None) => panic!("C18: accepted a text that is not a valid URI of the data: shape"),
        (Err(_), Some(_)) => panic!("C18: rejected a valid data URL"),
    }
    cover!(want.is_none() && b.len() >= 6 && b[4] == b':', "data: prefix but not a data URL");
    cover!(PREFIXED || (want.is_none() && b.len() >= 3 && b[1] == b':'), "another scheme");
}

/// Owned form: same acceptance, offset-based accessors = oracle split.
fn data_url_owned<const N: usize>() {
    let t = Text::<N>::any();
    let b = t.bytes();
    let want = if tables::t_uri_uri_valid_k(b, N) { shape(b) } else { None };
    let v = vec_of(b);
    match (DataUrlBuf::new(v), want) {
        (Err(e), None) => {
            assert!(bytes_eq(&e.0, b), "C18: rejected input not handed back (owned)");
            forget(e);
        }
        (Ok(o), Some((me, b64, ds))) => {
            let ob = o.as_str().as_bytes();
            assert!(bytes_eq(ob, b), "C18: owned data URL text differs");
            assert!(opt_same(ob, o.media_type(), 5, me), "C18: owned media_type()");
            assert!(o.is_base_64_encoded() == b64, "C18: owned is_base_64_encoded()");
            assert!(is_subslice(ob, o.encoded_data().as_bytes(), ds, ob.len()), "C18: owned encoded_data()");
            let q = o.parts();
            assert!(opt_same(ob, q.media_type, 5, me) && q.base_64 == b64 && is_subslice(ob, q.data.as_bytes(), ds, ob.len()), "C18: owned parts()");
            // the borrowed view of the owned value agrees
            let d: &DataUrl = &o;
            assert!(is_subslice(ob, d.encoded_data().as_bytes(), ds, ob.len()) && d.is_base_64_encoded() == b64, "C18: borrowed view of the owned value disagrees");
            cover!(!b64 && me > 5 && ds < ob.len(), "media type and data present");
            forget(o);
        }
        (Ok(_), None) => panic!("C18: owned constructor accepted a text that is not a data URL"),
        (Err(_), Some(_)) => panic!("C18: owned constructor rejected a valid data URL"),
    }
}

// @h prop=C18 tier=quick kind=check timeout=2400 mem=24 bound="any byte string <= 9 bytes (data:a,x and data:,a,b fit; ;base64, does not)" encodes="DataUrl::{new,media_type,is_base_64_encoded,encoded_data,parts};DataUrlDelimiters::parse (Uri::validate -> table twin)"
#[cfg_attr(kani, kani::proof)]
#[cfg_attr(kani, kani::unwind(12))]
#[cfg_attr(kani, kani::stub(iref_core::uri::Uri::validate, crate::tables::t_uri_uri_validate_iter))]
pub fn c18_data_url_borrowed_n9() {
    data_url_borrowed::<9, false, false>()
}

// @h prop=C18 tier=thorough kind=check timeout=3600 mem=30 bound="any byte string <= 13 bytes that starts with data: (so that data:;base64, fits)" encodes="same as c18_data_url_borrowed_n9"
#[cfg_attr(kani, kani::proof)]
#[cfg_attr(kani, kani::unwind(16))]
#[cfg_attr(kani, kani::stub(iref_core::uri::Uri::validate, crate::tables::t_uri_uri_validate_iter))]
pub fn c18_data_url_prefixed_n13() {
    data_url_borrowed::<13, true, false>()
}

// @h prop=C18 tier=thorough kind=check timeout=3600 mem=34 bound="any byte string <= 13 bytes" encodes="same as c18_data_url_borrowed_n9"
#[cfg_attr(kani, kani::proof)]
#[cfg_attr(kani, kani::unwind(16))]
#[cfg_attr(kani, kani::stub(iref_core::uri::Uri::validate, crate::tables::t_uri_uri_validate_iter))]
pub fn c18_data_url_borrowed_n13() {
    data_url_borrowed::<13, false, false>()
}

// @h prop=C18 tier=quick kind=check timeout=2400 mem=16 bound="any byte string <= 9 bytes" encodes="DataUrlBuf::{new,media_type,is_base_64_encoded,encoded_data,parts};Deref to DataUrl (UriBuf::new; Uri::validate -> table twin)"
#[cfg_attr(kani, kani::proof)]
#[cfg_attr(kani, kani::unwind(12))]
#[cfg_attr(kani, kani::stub(iref_core::uri::Uri::validate, crate::tables::t_uri_uri_validate_iter))]
pub fn c18_data_url_owned_n9() {
    data_url_owned::<9>()
}

// @h prop=C18 tier=thorough kind=check timeout=5400 mem=30 bound="any byte string <= 18 bytes that starts with data: (data:a;base64,AA== fits)" encodes="same as c18_data_url_borrowed_n13"
#[cfg_attr(kani, kani::proof)]
#[cfg_attr(kani, kani::unwind(21))]
#[cfg_attr(kani, kani::stub(iref_core::uri::Uri::validate, crate::tables::t_uri_uri_validate_iter))]
pub fn c18_data_url_prefixed_n18() {
    data_url_borrowed::<18, true, false>()
}

// @h prop=C18 tier=thorough kind=check timeout=5400 mem=30 bound="any byte string <= 14 bytes" encodes="same as c18_data_url_owned_n9"
#[cfg_attr(kani, kani::proof)]
#[cfg_attr(kani, kani::unwind(17))]
#[cfg_attr(kani, kani::stub(iref_core::uri::Uri::validate, crate::tables::t_uri_uri_validate_iter))]
pub fn c18_data_url_owned_n14() {
    data_url_owned::<14>()
}

// @h prop=C18 tier=thorough kind=check timeout=3600 mem=34 bound="any byte string <= 8 bytes: decoded_data of a non-base64 URL" encodes="DataUrl::decoded_data (links the base64 engine; only the non-base64 branch is asserted)"
#[cfg_attr(kani, kani::proof)]
#[cfg_attr(kani, kani::unwind(11))]
#[cfg_attr(kani, kani::stub(iref_core::uri::Uri::validate, crate::tables::t_uri_uri_validate_iter))]
pub fn c18_data_url_decode_n8() {
    data_url_borrowed::<8, false, true>()
}
