//! Kani stubs (DESIGN 6.3).  Every stub turns "would need to grow / spill" into
//! an *assertion*, never an assumption: a path that needs more room than the
//! harness capacity fails the check loudly.
use smallvec::{Array, SmallVec};
use std::alloc::Allocator;

pub use crate::sym::CAP;

pub fn vec_resize<T: Clone, A: Allocator>(v: &mut Vec<T, A>, new_len: usize, value: T) {
    if v.capacity() == 0 {
        // a buffer that starts empty (Default): one allocation of the concrete
        // harness capacity, then never again
        v.reserve_exact(CAP);
    }
    assert!(new_len <= v.capacity(), "STUB: Vec::resize beyond the harness capacity");
    let len = v.len();
    unsafe {
        if new_len > len {
            let p = v.as_mut_ptr();
            let mut i = len;
            while i < new_len {
                p.add(i).write(value.clone());
                i += 1;
            }
        }
        v.set_len(new_len);
    }
}

pub fn vec_push<T, A: Allocator>(v: &mut Vec<T, A>, value: T) {
    let len = v.len();
    assert!(len < v.capacity(), "STUB: Vec::push beyond the harness capacity");
    unsafe {
        v.as_mut_ptr().add(len).write(value);
        v.set_len(len + 1);
    }
}

pub fn slice_to_vec<T: Clone>(s: &[T]) -> Vec<T> {
    assert!(s.len() <= CAP, "STUB: to_vec beyond the harness capacity");
    let mut v: Vec<T> = Vec::with_capacity(CAP);
    unsafe {
        let p = v.as_mut_ptr();
        let mut i = 0;
        while i < s.len() {
            p.add(i).write(s[i].clone());
            i += 1;
        }
        v.set_len(s.len());
    }
    v
}

pub fn sv_try_grow<A: Array>(_v: &mut SmallVec<A>, _new_cap: usize) -> Result<(), smallvec::CollectionAllocErr> {
    panic!("STUB: SmallVec spill (outside every claim made at these bounds)")
}

pub fn sv_push<A: Array>(v: &mut SmallVec<A>, value: A::Item) {
    let len = v.len();
    assert!(!v.spilled() && len < v.inline_size(), "STUB: SmallVec::push would spill");
    unsafe {
        v.as_mut_ptr().add(len).write(value);
        v.set_len(len + 1);
    }
}

pub fn sv_extend_from_slice<A: Array>(v: &mut SmallVec<A>, slice: &[A::Item])
where
    A::Item: Copy,
{
    let len = v.len();
    assert!(!v.spilled() && len + slice.len() <= v.inline_size(), "STUB: SmallVec::extend_from_slice would spill");
    unsafe {
        let p = v.as_mut_ptr();
        let mut i = 0;
        while i < slice.len() {
            p.add(len + i).write(slice[i]);
            i += 1;
        }
        v.set_len(len + slice.len());
    }
}

pub unsafe fn no_alloc(_layout: std::alloc::Layout) -> *mut u8 {
    panic!("STUB: heap allocation")
}

pub unsafe fn no_realloc(_ptr: *mut u8, _layout: std::alloc::Layout, _new_size: usize) -> *mut u8 {
    panic!("STUB: heap allocation")
}

/// `<[T]>::copy_from_slice` as an element loop.  The std version is a
/// `ptr::copy_nonoverlapping` of symbolic length, which CBMC models as an
/// array-replace over the whole heap object; the loop has the same effect
/// (same length check, same elements) and a far smaller encoding.
pub fn copy_from_slice_loop<T: Copy>(dst: &mut [T], src: &[T]) {
    assert!(dst.len() == src.len(), "source slice length does not match destination slice length");
    let mut i = 0;
    while i < src.len() {
        dst[i] = src[i];
        i += 1;
    }
}
