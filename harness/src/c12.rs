//! C12 — segment iteration and path queries agree with the '/'-split of the text.
use crate::oracle::{path_tiles, split_path, PathSplit, R};
use crate::sym::{any_bool, as_str, assume, bytes_eq, is_subslice, Text};
use crate::{cover, tables};
use iref_core::{iri, uri};

macro_rules! interleave_body {
    ($fname:ident, $path:ty, $mk:expr) => {
        /// Any interleaving of `next`/`next_back` (a symbolic choice per step)
        /// yields exactly the oracle pieces, from the front and from the back,
        /// each once, never crossing, and `None` for ever afterwards.
        fn $fname<const N: usize, const STEPS: usize>() {
            let t = Text::<N>::any();
            let b = t.bytes();
            let p: &$path = match $mk(b) {
                Some(p) => p,
                None => return,
            };
            let w = p.as_bytes();
            assert!(w.as_ptr() == b.as_ptr() && w.len() == b.len(), "parsed path is not the caller's input");
            let want = split_path(b);
            assert!(path_tiles(b, &want), "oracle self-check: pieces joined by '/' give the text");
            let mut it = p.segments();
            let mut front = 0usize;
            let mut back = want.count;
            let mut step = 0;
            while step < STEPS {
                let from_back = any_bool();
                let got = if from_back { it.next_back() } else { it.next() };
                if front < back {
                    let k = if from_back { back - 1 } else { front };
                    match got {
                        Some(s) => {
                            assert!(
                                is_subslice(b, s.as_bytes(), want.seg[k].0, want.seg[k].1),
                                "segment iterator yielded something else than the next '/'-separated piece"
                            );
                        }
                        None => panic!("segment iterator ended before all pieces were yielded"),
                    }
                    if from_back {
                        back -= 1
                    } else {
                        front += 1
                    }
                } else {
                    assert!(got.is_none(), "segment iterator yielded a piece after front and back met");
                }
                step += 1;
            }
            assert!(front == back, "STEPS covers the longest path in the bound");
            cover!(want.count >= 4 && !want.absolute, "relative path with at least four segments");
            cover!(want.count >= 2 && want.seg[0].0 == want.seg[0].1 && want.absolute, "absolute path starting with an empty segment (//...)");
            cover!(want.count >= 2 && want.seg[want.count - 1].0 == want.seg[want.count - 1].1, "trailing empty segment");
            cover!(want.count == 0 && want.absolute, "the root path");
        }
    };
}

/// Real `uri::Path::new` (3-state generated automaton) as the validity test.
fn mk_uri_path(b: &[u8]) -> Option<&uri::Path> {
    uri::Path::new(b).ok()
}

/// IRI paths: byte-level table twin (a char-level walk is infeasible), then the
/// unchecked cast the library itself uses.
fn mk_iri_path(b: &[u8]) -> Option<&iri::Path> {
    if tables::t_iri_path_valid(b) {
        Some(unsafe { iri::Path::new_unchecked(as_str(b)) })
    } else {
        None
    }
}

interleave_body!(uri_interleave, uri::Path, mk_uri_path);
interleave_body!(iri_interleave, iri::Path, mk_iri_path);

// @h prop=C12,C20:thorough tier=quick kind=check bound="uri::Path text <= 7 bytes, every interleaving of 9 next/next_back steps" encodes="uri::Path::new (real validate);PathImpl::{segments,segment_at,next_segment_from,previous_segment_from,first_segment_offset,is_empty};SegmentsImpl::{next,next_back}"
#[cfg_attr(kani, kani::proof)]
#[cfg_attr(kani, kani::unwind(10))]
pub fn c12_uri_interleave_n7() {
    uri_interleave::<7, 9>()
}

// @h prop=C12,C20:thorough tier=thorough kind=check bound="uri::Path text <= 8 bytes, every interleaving of 10 steps" encodes="same as c12_uri_interleave_n7"
#[cfg_attr(kani, kani::proof)]
#[cfg_attr(kani, kani::unwind(11))]
pub fn c12_uri_interleave_n8() {
    uri_interleave::<8, 10>()
}

// @h prop=C12,C20:thorough tier=thorough kind=check timeout=2400 bound="uri::Path text <= 10 bytes, every interleaving of 12 steps" encodes="same as c12_uri_interleave_n8"
#[cfg_attr(kani, kani::proof)]
#[cfg_attr(kani, kani::unwind(13))]
pub fn c12_uri_interleave_n10() {
    uri_interleave::<10, 12>()
}

// @h prop=C12,C20:thorough tier=quick kind=check bound="iri::Path text <= 7 bytes (UTF-8), every interleaving of 9 steps" encodes="PathImpl/SegmentsImpl for iri::Path"
#[cfg_attr(kani, kani::proof)]
#[cfg_attr(kani, kani::unwind(10))]
pub fn c12_iri_interleave_n7() {
    iri_interleave::<7, 9>()
}

fn last_slash(b: &[u8]) -> Option<usize> {
    let mut i = b.len();
    while i > 0 {
        i -= 1;
        if b[i] == b'/' {
            return Some(i);
        }
    }
    None
}

macro_rules! queries_body {
    ($fname:ident, $path:ty, $mk:expr) => {
        /// Emptiness, absoluteness, count, first, last, file name, directory,
        /// parent and parent_or_empty against the oracle sequence.
        fn $fname<const N: usize>() {
            let t = Text::<N>::any();
            let b = t.bytes();
            let p: &$path = match $mk(b) {
                Some(p) => p,
                None => return,
            };
            let want = split_path(b);
            assert!(p.is_empty() == (want.count == 0), "is_empty() disagrees with the segment sequence");
            assert!(p.is_absolute() == want.absolute && p.is_relative() != want.absolute, "is_absolute()/is_relative()");
            assert!(p.segment_count() == want.count, "segment_count() disagrees with the segment sequence");
            match p.first() {
                None => assert!(want.count == 0, "first() is None on a non-empty path"),
                Some(s) => assert!(
                    want.count > 0 && is_subslice(b, s.as_bytes(), want.seg[0].0, want.seg[0].1),
                    "first() is not the first piece"
                ),
            }
            match p.last() {
                None => assert!(want.count == 0, "last() is None on a non-empty path"),
                Some(s) => assert!(
                    want.count > 0 && is_subslice(b, s.as_bytes(), want.seg[want.count - 1].0, want.seg[want.count - 1].1),
                    "last() is not the last piece"
                ),
            }
            match p.file_name() {
                None => assert!(
                    want.count == 0 || want.seg[want.count - 1].0 == want.seg[want.count - 1].1,
                    "file_name() is None although the last segment is non-empty"
                ),
                Some(s) => assert!(
                    want.count > 0
                        && want.seg[want.count - 1].1 > want.seg[want.count - 1].0
                        && is_subslice(b, s.as_bytes(), want.seg[want.count - 1].0, want.seg[want.count - 1].1),
                    "file_name() is not the non-empty last piece"
                ),
            }
            let ls = last_slash(b);
            // directory: the text up to and including the last '/', or "" when there is none
            let d = p.directory().as_bytes();
            match ls {
                None => assert!(d.is_empty(), "directory() of a path without '/' is not empty"),
                Some(i) => assert!(is_subslice(b, d, 0, i + 1), "directory() is not the text through the last '/'"),
            }
            // parent: the text without its last segment and the '/' before it
            let par = p.parent().map(|x| x.as_bytes());
            if want.count == 0 {
                assert!(par.is_none(), "parent() of an empty path");
            } else {
                match ls {
                    None => assert!(par.is_none(), "parent() of a single relative segment"),
                    Some(0) => assert!(matches!(par, Some(x) if bytes_eq(x, b"/")), "parent() of /x is not /"),
                    Some(1) if b[0] == b'/' => {
                        assert!(matches!(par, Some(x) if bytes_eq(x, b"/./")), "parent() of //x is not the documented /./")
                    }
                    Some(i) => assert!(matches!(par, Some(x) if is_subslice(b, x, 0, i)), "parent() is not the text before the last '/'"),
                }
            }
            let poe = p.parent_or_empty().as_bytes();
            match par {
                Some(x) => assert!(poe.as_ptr() == x.as_ptr() && poe.len() == x.len(), "parent_or_empty() differs from parent()"),
                None => assert!(
                    if want.absolute { bytes_eq(poe, b"/") } else { poe.is_empty() },
                    "parent_or_empty() without parent is not the empty path of the same kind"
                ),
            }
            cover!(want.count == 1 && !want.absolute, "single relative segment");
            cover!(matches!(ls, Some(1)) && b[0] == b'/', "the //x shape");
            cover!(want.count >= 3, "three or more segments");
        }
    };
}

queries_body!(uri_queries, uri::Path, mk_uri_path);
queries_body!(iri_queries, iri::Path, mk_iri_path);

// @h prop=C12,C20:thorough tier=quick kind=check bound="uri::Path text <= 8 bytes" encodes="PathImpl::{is_empty,is_absolute,first,last,file_name,directory,parent,parent_or_empty,segments};uri::Path::segment_count"
#[cfg_attr(kani, kani::proof)]
#[cfg_attr(kani, kani::unwind(11))]
pub fn c12_uri_queries_n8() {
    uri_queries::<8>()
}

// @h prop=C12,C20:thorough tier=thorough kind=check timeout=2400 bound="uri::Path text <= 12 bytes" encodes="same as c12_uri_queries_n8"
#[cfg_attr(kani, kani::proof)]
#[cfg_attr(kani, kani::unwind(15))]
pub fn c12_uri_queries_n12() {
    uri_queries::<12>()
}

// @h prop=C12,C20:thorough tier=quick kind=check bound="iri::Path text <= 7 bytes (UTF-8)" encodes="same queries for iri::Path"
#[cfg_attr(kani, kani::proof)]
#[cfg_attr(kani, kani::unwind(10))]
pub fn c12_iri_queries_n7() {
    iri_queries::<7>()
}
