//! C16 — suffix and base extraction are consistent with path prefixes.
use crate::oracle::{comps_of, lists_equal_mod_shield, normalize_list, pct_decode, seg, split_path, split_ref, SegList};
use crate::sym::{as_str, assume, bytes_eq, is_subslice, Text};
use crate::{cover, tables};
use iref_core::{iri, uri, Iri, IriRef, Uri, UriRef};
use std::mem::forget;

fn base_end(b: &[u8]) -> usize {
    let s = split_ref(b);
    let (ps, pe) = s.path;
    let mut i = pe;
    while i > ps {
        if b[i - 1] == b'/' {
            return i;
        }
        i -= 1;
    }
    ps
}

/// base(): the text up to and including the last '/' of the path (or up to the
/// start of the path); a sub-slice; valid for the same kind; no query/fragment.
fn uriref_base<const N: usize>() {
    let t = Text::<N>::any();
    let b = t.bytes();
    assume(tables::t_uri_uriref_valid_k(b, N));
    let x = unsafe { UriRef::new_unchecked(b) };
    let e = base_end(b);
    let r = x.base().as_bytes();
    assert!(is_subslice(b, r, 0, e), "C16: base() is not the text through the last '/' of the path");
    assert!(tables::t_uri_uriref_valid_k(r, N), "C16: base() is not a valid URI reference");
    let s = split_ref(r);
    assert!(s.query.is_none() && s.fragment.is_none(), "C16: base() has a query or a fragment");
    if let Some(u) = x.as_uri() {
        let ru = u.base().as_bytes();
        assert!(is_subslice(b, ru, 0, e) && tables::t_uri_uri_valid_k(ru, N), "C16: Uri::base()");
    }
    cover!(e < b.len() && e > 2, "a file name, query or fragment is cut off");
    cover!(split_ref(b).authority.is_some() && e == b.len(), "base is the whole text");
}

// @h prop=C16,C20:thorough tier=quick kind=check bound="UriRef text <= 10 bytes" encodes="RiRefImpl::base;parse::find_path;PathImpl::directory;UriRef::base;Uri::base"
#[cfg_attr(kani, kani::proof)]
#[cfg_attr(kani, kani::unwind(12))]
pub fn c16_uriref_base_n10() {
    uriref_base::<10>()
}

fn iriref_base<const N: usize>() {
    let t = Text::<N>::any();
    let b = t.bytes();
    assume(tables::t_iri_iriref_valid_k(b, N));
    let x = unsafe { IriRef::new_unchecked(as_str(b)) };
    let e = base_end(b);
    let r = x.base().as_bytes();
    assert!(is_subslice(b, r, 0, e), "C16: IriRef::base() is not the text through the last '/' of the path");
    assert!(tables::t_iri_iriref_valid_k(r, N), "C16: IriRef::base() is not a valid IRI reference");
    cover!(e < b.len() && e > 2 && b[e] >= 0xC2, "multi-byte file name cut off");
}

// @h prop=C16 tier=quick kind=check bound="IriRef text <= 9 bytes (UTF-8)" encodes="RiRefImpl::base for IriRef"
#[cfg_attr(kani, kani::proof)]
#[cfg_attr(kani, kani::unwind(11))]
pub fn c16_iriref_base_n9() {
    iriref_base::<9>()
}

pub const PREFIX_REPS: [&[u8]; 8] = [b"", b"/", b"a", b"/a", b"a/b", b"/a/..", b"%61", b".."];

fn seg_dec_eq(a: &[u8], b: &[u8]) -> bool {
    let (da, x) = pct_decode(a);
    let (db, y) = pct_decode(b);
    bytes_eq(&da[..x], &db[..y])
}

/// Path::suffix: Some exactly when both are absolute or both relative and the
/// prefix's normalised segments lead the value's; then the remaining segments.
fn path_suffix<const N: usize, const K: usize>() {
    path_suffix_r::<N, K, 2>()
}

fn path_suffix_r<const N: usize, const K: usize, const R: usize>() {
    let t = Text::<N>::any();
    let a = t.bytes();
    assume(uri::Path::new(a).is_ok());
    let x = unsafe { uri::Path::new_unchecked(a) };
    let p = PREFIX_REPS[K];
    let y = unsafe { uri::Path::new_unchecked(p) };
    let aa = a.first() == Some(&b'/');
    let pa = p.first() == Some(&b'/');
    let na = normalize_list(a, &SegList::of(&split_path(a)), aa);
    let np = normalize_list(p, &SegList::of(&split_path(p)), pa);
    let mut is_prefix = aa == pa && np.n <= na.n;
    let mut i = 0;
    while is_prefix && i < np.n {
        if !seg_dec_eq(seg(a, na.r[i]), seg(p, np.r[i])) {
            is_prefix = false;
        }
        i += 1;
    }
    let got = x.suffix(y);
    match got {
        None => assert!(!is_prefix, "C16: suffix() is None although the prefix leads the value"),
        Some(s) => {
            assert!(is_prefix, "C16: suffix() is Some although the prefix does not lead the value");
            let mut rest = SegList::empty();
            let mut k = np.n;
            while k < na.n {
                rest.push(na.r[k]);
                k += 1;
            }
            let out = s.as_bytes();
            assert!(tables::t_uri_path_valid_k(out, N + 3), "C16: suffix() is not a valid path");
            let gl = SegList::of(&split_path(out));
            assert!(lists_equal_mod_shield(a, &rest, out, &gl), "C16: suffix() is not the remaining segments");
            cover!(rest.n >= R, "R or more remaining segments (R = 2, or 1 at the smallest bound)");
            forget(s);
        }
    }
    cover!(!is_prefix && aa == pa, "same kind but not a prefix");
}

// @h prop=C16 tier=thorough kind=check timeout=3600 mem=30 bound="uri::Path value <= 4 bytes x prefix 'a'" encodes="PathImpl::suffix;NormalizedSegmentsImpl;utils::pct_eq;PathMutImpl::push (Vec growth from empty: one allocation of the harness capacity)"
#[cfg_attr(kani, kani::proof)]
#[cfg_attr(kani, kani::unwind(12))]
#[cfg_attr(kani, kani::stub(std::vec::Vec::resize, crate::stubs::vec_resize))]
#[cfg_attr(kani, kani::stub(smallvec::SmallVec::try_grow, crate::stubs::sv_try_grow))]
#[cfg_attr(kani, kani::stub(smallvec::SmallVec::push, crate::stubs::sv_push))]
pub fn c16_path_suffix_rep2_n4() {
    path_suffix::<4, 2>()
}

// @h prop=C16 tier=thorough kind=check timeout=3600 mem=30 bound="uri::Path value <= 4 bytes x prefix '/'" encodes="same as c16_path_suffix_rep2_n4"
#[cfg_attr(kani, kani::proof)]
#[cfg_attr(kani, kani::unwind(12))]
#[cfg_attr(kani, kani::stub(std::vec::Vec::resize, crate::stubs::vec_resize))]
#[cfg_attr(kani, kani::stub(smallvec::SmallVec::try_grow, crate::stubs::sv_try_grow))]
#[cfg_attr(kani, kani::stub(smallvec::SmallVec::push, crate::stubs::sv_push))]
pub fn c16_path_suffix_rep1_n4() {
    path_suffix::<4, 1>()
}

/// Uri::suffix: scheme and authority must be equal; query and fragment are the
/// value's own.
fn uri_suffix<const N: usize>() {
    let t = Text::<N>::any();
    let a = t.bytes();
    assume(tables::t_uri_uri_valid_k(a, N));
    let x = unsafe { Uri::new_unchecked(a) };
    let p: &[u8] = b"s:/a";
    let y = unsafe { Uri::new_unchecked(p) };
    let sa = split_ref(a);
    let ca = comps_of(a, &sa);
    let same_head = ca.scheme.map(|s| bytes_eq(s, b"s")).unwrap_or(false) && ca.authority.is_none();
    match x.suffix(y) {
        None => {
            if same_head {
                // then the path must not have /a as a leading part
                let na = normalize_list(ca.path, &SegList::of(&split_path(ca.path)), ca.path.first() == Some(&b'/'));
                let leads = ca.path.first() == Some(&b'/') && na.n >= 1 && seg_dec_eq(seg(ca.path, na.r[0]), b"a");
                assert!(!leads, "C16: Uri::suffix() is None although scheme, authority and path prefix match");
            }
        }
        Some((s, q, f)) => {
            assert!(same_head, "C16: Uri::suffix() is Some although scheme or authority differ");
            match (q, sa.query) {
                (None, None) => (),
                (Some(q), Some((qs, qe))) => assert!(is_subslice(a, q.as_bytes(), qs, qe), "C16: suffix query is not the value's own"),
                _ => panic!("C16: suffix query presence differs from the value's"),
            }
            match (f, sa.fragment) {
                (None, None) => (),
                (Some(f), Some((fs, fe))) => assert!(is_subslice(a, f.as_bytes(), fs, fe), "C16: suffix fragment is not the value's own"),
                _ => panic!("C16: suffix fragment presence differs from the value's"),
            }
            cover!(q.is_some(), "suffix with a query");
            forget(s);
        }
    }
}

// @h prop=C16 tier=thorough kind=check timeout=5400 mem=26 bound="Uri value <= 7 bytes x prefix 's:/a'" encodes="RiRefImpl::suffix;Uri::suffix;Scheme/Authority equality;PathImpl::suffix"
#[cfg_attr(kani, kani::proof)]
#[cfg_attr(kani, kani::unwind(12))]
#[cfg_attr(kani, kani::stub(std::vec::Vec::resize, crate::stubs::vec_resize))]
#[cfg_attr(kani, kani::stub(smallvec::SmallVec::try_grow, crate::stubs::sv_try_grow))]
#[cfg_attr(kani, kani::stub(smallvec::SmallVec::push, crate::stubs::sv_push))]
pub fn c16_uri_suffix_n7() {
    uri_suffix::<7>()
}

// @h prop=C16 tier=thorough kind=check timeout=5400 mem=26 bound="uri::Path value <= 5 bytes x prefix 'a/b'" encodes="same as c16_path_suffix_rep2_n4"
#[cfg_attr(kani, kani::proof)]
#[cfg_attr(kani, kani::unwind(13))]
#[cfg_attr(kani, kani::stub(std::vec::Vec::resize, crate::stubs::vec_resize))]
#[cfg_attr(kani, kani::stub(smallvec::SmallVec::try_grow, crate::stubs::sv_try_grow))]
#[cfg_attr(kani, kani::stub(smallvec::SmallVec::push, crate::stubs::sv_push))]
pub fn c16_path_suffix_rep4_n5() {
    path_suffix::<5, 4>()
}

// @h prop=C16 tier=thorough kind=check timeout=2400 mem=40 bound="uri::Path value <= 2 bytes x prefix 'a'" encodes="PathImpl::suffix;NormalizedSegmentsImpl;utils::pct_eq;PathMutImpl::push (Vec growth from empty: one allocation of the harness capacity)"
#[cfg_attr(kani, kani::proof)]
#[cfg_attr(kani, kani::unwind(5))]
#[cfg_attr(kani, kani::stub(std::vec::Vec::resize, crate::stubs::vec_resize))]
#[cfg_attr(kani, kani::stub(smallvec::SmallVec::try_grow, crate::stubs::sv_try_grow))]
#[cfg_attr(kani, kani::stub(smallvec::SmallVec::push, crate::stubs::sv_push))]
pub fn c16_path_suffix_rep2_n2() {
    path_suffix_r::<2, 2, 1>()
}
