//! Native companion of the Kani harnesses.
//!   native replay <harness> <hex bytes>   run one harness body on recorded values
//!   native accepts <fam::Type> <hex>      verdict of the real validating constructor
//!   native tables <seed> <count>          table twins vs the real constructors
#[cfg(kani)]
fn main() {}

#[cfg(not(kani))]
fn main() {
    real::main()
}

#[cfg(not(kani))]
mod real {
    use iref_verif_harness::gen::registry::HARNESSES;
    use iref_verif_harness::sym::native;
    use iref_verif_harness::tables;
    use std::panic;

    fn unhex(s: &str) -> Vec<u8> {
        let s: Vec<u8> = s.bytes().filter(|c| c.is_ascii_hexdigit()).collect();
        s.chunks(2)
            .map(|p| u8::from_str_radix(std::str::from_utf8(p).unwrap(), 16).unwrap())
            .collect()
    }

    macro_rules! real_uri {
        ($t:ty, $b:expr) => {
            <$t>::new($b).is_ok()
        };
    }
    macro_rules! real_iri {
        ($t:ty, $b:expr) => {
            match std::str::from_utf8($b) {
                Ok(s) => <$t>::new(s).is_ok(),
                Err(_) => false,
            }
        };
    }

    /// (name, real constructor verdict, table twin verdict)
    fn verdicts(name: &str, b: &[u8]) -> (bool, bool) {
        use iref_core::{iri, uri};
        match name {
            "uri::Uri" => (real_uri!(uri::Uri, b), tables::t_uri_uri_valid(b)),
            "uri::UriRef" => (real_uri!(uri::UriRef, b), tables::t_uri_uriref_valid(b)),
            "uri::Scheme" => (real_uri!(uri::Scheme, b), tables::t_uri_scheme_valid(b)),
            "uri::Authority" => (real_uri!(uri::Authority, b), tables::t_uri_authority_valid(b)),
            "uri::UserInfo" => (real_uri!(uri::UserInfo, b), tables::t_uri_userinfo_valid(b)),
            "uri::Host" => (real_uri!(uri::Host, b), tables::t_uri_host_valid(b)),
            "uri::Port" => (real_uri!(uri::Port, b), tables::t_uri_port_valid(b)),
            "uri::Path" => (real_uri!(uri::Path, b), tables::t_uri_path_valid(b)),
            "uri::Segment" => (real_uri!(uri::Segment, b), tables::t_uri_segment_valid(b)),
            "uri::Query" => (real_uri!(uri::Query, b), tables::t_uri_query_valid(b)),
            "uri::Fragment" => (real_uri!(uri::Fragment, b), tables::t_uri_fragment_valid(b)),
            "iri::Iri" => (real_iri!(iri::Iri, b), tables::t_iri_iri_valid(b)),
            "iri::IriRef" => (real_iri!(iri::IriRef, b), tables::t_iri_iriref_valid(b)),
            "iri::Authority" => (real_iri!(iri::Authority, b), tables::t_iri_authority_valid(b)),
            "iri::UserInfo" => (real_iri!(iri::UserInfo, b), tables::t_iri_userinfo_valid(b)),
            "iri::Host" => (real_iri!(iri::Host, b), tables::t_iri_host_valid(b)),
            "iri::Path" => (real_iri!(iri::Path, b), tables::t_iri_path_valid(b)),
            "iri::Segment" => (real_iri!(iri::Segment, b), tables::t_iri_segment_valid(b)),
            "iri::Query" => (real_iri!(iri::Query, b), tables::t_iri_query_valid(b)),
            "iri::Fragment" => (real_iri!(iri::Fragment, b), tables::t_iri_fragment_valid(b)),
            _ => panic!("unknown type {name}"),
        }
    }

    const TYPES: [&str; 20] = [
        "uri::Uri", "uri::UriRef", "uri::Scheme", "uri::Authority", "uri::UserInfo", "uri::Host", "uri::Port",
        "uri::Path", "uri::Segment", "uri::Query", "uri::Fragment", "iri::Iri", "iri::IriRef", "iri::Authority",
        "iri::UserInfo", "iri::Host", "iri::Path", "iri::Segment", "iri::Query", "iri::Fragment",
    ];

    /// The literals used by the repository's own tests and docs plus RFC examples.
    const CORPUS: &[&str] = &[
        "", "/", "//", "///", "////", "a", "a:", "a:b", "scheme:", "scheme:////", "http://a/b/c/d;p?q", "g:h", "./g", "g/",
        "/g", "//g", "?y", "g?y", "#s", "g#s", "g?y#s", ";x", "g;x", "g;x?y#s", ".", "./", "..", "../", "../g", "../..",
        "../../g", "../../../g", "/./g", "/../g", "g.", ".g", "g..", "..g", "./../g", "./g/.", "g/./h", "g/../h",
        "g;x=1/./y", "g;x=1/../y", "g?y/./x", "g?y/../x", "g#s/./x", "g#s/../x", "http:g", "http://example.com/foo",
        "https://www.rust-lang.org/foo/bar?query#frag", "//user:pass@host:80/p", "http://[::1]:80/", "http://[v1.a]/",
        "http://u@[::1]", "http://1.2.3.4:", "http://%41%zz", "a://b/c/../d/./e", "scheme:a:b", "./a:b", "foo//bar",
        "https://crates.io/crates/iref", "https://crates.io/crates/", "//a@[::]:1/p?q#f", "s://h/a%2Fb", "%C3%A9",
        "http://r\u{e9}sum\u{e9}.example.org", "//\u{10000}/\u{e000}?\u{e000}#\u{fffd}", "\u{a0}", "a\u{d7ff}b", "?\u{f0000}",
        "ftp://ftp.is.co.za/rfc/rfc1808.txt", "ldap://[2001:db8::7]/c=GB?objectClass?one", "mailto:John.Doe@example.com",
        "news:comp.infosystems.www.servers.unix", "tel:+1-816-555-1212", "telnet://192.0.2.16:80/",
        "urn:oasis:names:specification:docbook:dtd:xml:4.1.2", "[::1]", "[::ffff:1.2.3.4]", "[1:2:3:4:5:6:7:8]", "[1::8]",
        "[::]", "[v7.x:y]", "256.1.1.1", "1.2.3", "u:p@h:1", "@", ":", "h:", "h:12a", "user@", "80", "0", "a+b-c.d", "1a",
        "data:,", "data:text/plain;base64,SGVsbG8=",
    ];

    struct Rng(u64);
    impl Rng {
        fn next(&mut self) -> u64 {
            self.0 ^= self.0 << 13;
            self.0 ^= self.0 >> 7;
            self.0 ^= self.0 << 17;
            self.0
        }
    }

    pub fn main() {
        let args: Vec<String> = std::env::args().collect();
        match args.get(1).map(|s| s.as_str()) {
            Some("list") => {
                for (n, _) in HARNESSES {
                    println!("{n}");
                }
            }
            Some("replay") => {
                let name = &args[2];
                let bytes = unhex(args.get(3).map(|s| s.as_str()).unwrap_or(""));
                let f = HARNESSES.iter().find(|(n, _)| n == name).unwrap_or_else(|| panic!("no harness {name}")).1;
                native::load(&bytes);
                let r = panic::catch_unwind(f);
                let covers = native::COVERS.with(|c| c.borrow().clone());
                for c in covers {
                    println!("COVER {c}");
                }
                match r {
                    Ok(()) => println!("RESULT pass"),
                    Err(e) => {
                        if e.is::<native::AssumeFailed>() {
                            println!("RESULT assume")
                        } else if e.is::<native::OutOfInput>() {
                            println!("RESULT outofinput")
                        } else {
                            let msg = e
                                .downcast_ref::<String>()
                                .cloned()
                                .or_else(|| e.downcast_ref::<&str>().map(|s| s.to_string()))
                                .unwrap_or_default();
                            println!("RESULT fail {msg}")
                        }
                    }
                }
            }
            Some("fuzz") => {
                // debugging aid for harness/oracle development (NOT part of any verdict)
                let name = &args[2];
                let seed: u64 = args[3].parse().unwrap();
                let iters: usize = args[4].parse().unwrap();
                let f = HARNESSES.iter().find(|(n, _)| n == name).unwrap_or_else(|| panic!("no harness {name}")).1;
                let alpha: &[u8] = b"aZ09:/?#[]@.%41vf-+!;=~2./:/?#@%..//::\xc3\xa9\xe2\x82\xac\xf0\x90\x80\x80\x00\x01\x02\x03\x04\x05\x06\x07\x08";
                let mut rng = Rng(seed.wrapping_mul(0x9E3779B97F4A7C15) | 1);
                panic::set_hook(Box::new(|_| {}));
                let (mut pass, mut assume, mut fail) = (0usize, 0usize, 0usize);
                for _ in 0..iters {
                    let mut v = Vec::with_capacity(96);
                    for _ in 0..96 {
                        v.push(alpha[(rng.next() % alpha.len() as u64) as usize]);
                    }
                    native::load(&v);
                    native::FUZZ.with(|f| *f.borrow_mut() = true);
                    let r = panic::catch_unwind(f);
                    match r {
                        Ok(()) => pass += 1,
                        Err(e) => {
                            if e.is::<native::AssumeFailed>() {
                                assume += 1
                            } else if e.is::<native::OutOfInput>() {
                                assume += 1
                            } else {
                                fail += 1;
                                let msg = e
                                    .downcast_ref::<String>()
                                    .cloned()
                                    .or_else(|| e.downcast_ref::<&str>().map(|s| s.to_string()))
                                    .unwrap_or_default();
                                let rec = native::RECORD.with(|r| r.borrow().clone());
                                if fail <= 5 {
                                    let hex: String = rec.iter().map(|b| format!("{:02x}", b)).collect();
                                    println!("FAIL {msg}\n  replay-hex {hex}\n  text {:?}", String::from_utf8_lossy(&rec));
                                }
                            }
                        }
                    }
                }
                println!("FUZZ pass={pass} assume_failed={assume} fail={fail}");
            }
            Some("accepts") => {
                let (real, table) = verdicts(&args[2], &unhex(&args[3]));
                println!("REAL {real} TABLE {table}");
            }
            Some("tables") => {
                let seed: u64 = args[2].parse().unwrap();
                let count: usize = args[3].parse().unwrap();
                // fixed values of the hook-rebuilt constants
                assert!(iref_core::uri::Path::EMPTY_ABSOLUTE.as_bytes() == b"/");
                assert!(iref_core::uri::Path::EMPTY.as_bytes() == b"");
                assert!(iref_core::uri::Segment::EMPTY.as_bytes() == b"");
                assert!(iref_core::uri::Segment::PARENT.as_bytes() == b"..");
                assert!(iref_core::iri::Path::EMPTY_ABSOLUTE.as_bytes() == b"/");
                assert!(iref_core::iri::Path::EMPTY.as_bytes() == b"");
                assert!(iref_core::iri::Segment::EMPTY.as_bytes() == b"");
                assert!(iref_core::iri::Segment::PARENT.as_bytes() == b"..");
                let alphabet: &[&[u8]] = &[
                    b"a", b"Z", b"0", b"9", b":", b"/", b"?", b"#", b"[", b"]", b"@", b".", b"%", b"4", b"1", b"v", b"f", b"-",
                    b"+", b"!", b";", b"=", b"~", b" ", b"\x7f", b"\x00", b"2", b"5", b"6", "\u{e9}".as_bytes(),
                    "\u{a0}".as_bytes(), "\u{d7ff}".as_bytes(), "\u{e000}".as_bytes(), "\u{f8ff}".as_bytes(),
                    "\u{fdd0}".as_bytes(), "\u{ffef}".as_bytes(), "\u{fff0}".as_bytes(), "\u{10000}".as_bytes(),
                    "\u{1fffe}".as_bytes(), "\u{e0000}".as_bytes(), "\u{f0000}".as_bytes(), "\u{10fffd}".as_bytes(),
                    "\u{10ffff}".as_bytes(), b"\xc3", b"\xa9", b"\xed\xa0\x80", b"\xc0\x80", b"\xf4\x90\x80\x80", b"\xff",
                ];
                let mut n = 0usize;
                let mut acc = 0usize;
                let mut bad = 0usize;
                let mut check = |b: &[u8]| {
                    for t in TYPES {
                        let (real, table) = verdicts(t, b);
                        n += 1;
                        if real {
                            acc += 1
                        }
                        if real != table {
                            bad += 1;
                            println!("MISMATCH {t} real={real} table={table} input={:02x?}", b);
                        }
                    }
                };
                for s in CORPUS {
                    check(s.as_bytes());
                }
                let mut rng = Rng(seed.wrapping_mul(0x9E3779B97F4A7C15) | 1);
                for _ in 0..count {
                    let len = (rng.next() % 9) as usize;
                    let mut v = Vec::new();
                    for _ in 0..len {
                        v.extend_from_slice(alphabet[(rng.next() % alphabet.len() as u64) as usize]);
                    }
                    check(&v);
                }
                println!("TABLES checked={n} accepted={acc} mismatches={bad}");
                if bad > 0 {
                    std::process::exit(1)
                }
            }
            _ => {
                eprintln!("usage: native list | replay <harness> <hex> | accepts <fam::Type> <hex> | tables <seed> <count>");
                std::process::exit(2)
            }
        }
    }
}
