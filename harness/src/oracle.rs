//! Reference oracles: short straight-line code over byte slices, written from
//! the RFC text and independent of iref (nothing here calls into iref).

pub type R = (usize, usize); // half-open byte range [start, end)

#[derive(Clone, Copy, PartialEq, Eq, Debug)]
pub struct RefSplit {
    pub scheme: Option<R>,
    pub authority: Option<R>,
    pub path: R,
    pub query: Option<R>,
    pub fragment: Option<R>,
}

#[inline(always)]
fn is_gen_stop(c: u8) -> bool {
    c == b':' || c == b'/' || c == b'?' || c == b'#'
}

/// RFC 3986 Appendix B:
/// `^(([^:/?#]+):)?(//([^/?#]*))?([^?#]*)(\?([^#]*))?(#(.*))?`
pub fn split_ref(b: &[u8]) -> RefSplit {
    let n = b.len();
    let mut i = 0;
    // (([^:/?#]+):)?
    let mut j = 0;
    while j < n && !is_gen_stop(b[j]) {
        j += 1;
    }
    let scheme = if j > 0 && j < n && b[j] == b':' {
        i = j + 1;
        Some((0, j))
    } else {
        None
    };
    // (//([^/?#]*))?
    let authority = if i + 1 < n && b[i] == b'/' && b[i + 1] == b'/' {
        let s = i + 2;
        let mut e = s;
        while e < n && b[e] != b'/' && b[e] != b'?' && b[e] != b'#' {
            e += 1;
        }
        i = e;
        Some((s, e))
    } else {
        None
    };
    // ([^?#]*)
    let ps = i;
    while i < n && b[i] != b'?' && b[i] != b'#' {
        i += 1;
    }
    let path = (ps, i);
    // (\?([^#]*))?
    let query = if i < n && b[i] == b'?' {
        let s = i + 1;
        let mut e = s;
        while e < n && b[e] != b'#' {
            e += 1;
        }
        i = e;
        Some((s, e))
    } else {
        None
    };
    // (#(.*))?
    let fragment = if i < n && b[i] == b'#' { Some((i + 1, n)) } else { None };
    RefSplit { scheme, authority, path, query, fragment }
}

/// RFC 3986 section 5.3 recomposition, as an index identity: the five ranges
/// tile `0..n` with exactly the delimiters `:`, `//`, `?`, `#` between them.
pub fn tiles(b: &[u8], s: &RefSplit) -> bool {
    let mut i = 0;
    if let Some((a, e)) = s.scheme {
        if a != 0 || e >= b.len() || b[e] != b':' {
            return false;
        }
        i = e + 1;
    }
    if let Some((a, e)) = s.authority {
        if a != i + 2 || a > b.len() || b[i] != b'/' || b[i + 1] != b'/' {
            return false;
        }
        i = e;
    }
    if s.path.0 != i {
        return false;
    }
    i = s.path.1;
    if let Some((a, e)) = s.query {
        if a != i + 1 || a > b.len() || b[i] != b'?' {
            return false;
        }
        i = e;
    }
    if let Some((a, e)) = s.fragment {
        if a != i + 1 || a > b.len() || b[i] != b'#' {
            return false;
        }
        i = e;
    }
    i == b.len()
}

#[derive(Clone, Copy, PartialEq, Eq, Debug)]
pub struct AuthSplit {
    pub user_info: Option<R>,
    pub host: R,
    pub port: Option<R>,
}

/// RFC 3986 section 3.2: `[ userinfo "@" ] host [ ":" port ]` where a host
/// that starts with `[` extends through the matching `]`.
pub fn split_auth(a: &[u8]) -> AuthSplit {
    let n = a.len();
    let mut at = 0;
    while at < n && a[at] != b'@' {
        at += 1;
    }
    let (user_info, hs) = if at < n { (Some((0, at)), at + 1) } else { (None, 0) };
    let mut he = hs;
    if he < n && a[he] == b'[' {
        while he < n && a[he] != b']' {
            he += 1;
        }
        if he < n {
            he += 1;
        }
    } else {
        while he < n && a[he] != b':' {
            he += 1;
        }
    }
    let port = if he < n { Some((he + 1, n)) } else { None };
    AuthSplit { user_info, host: (hs, he), port }
}

pub const MAXSEG: usize = 18;

/// The '/'-separated pieces of a path after the optional leading '/'.
/// `""` and `"/"` have no segment; `"/a/"` has two (`a` and the empty one).
#[derive(Clone, Copy)]
pub struct PathSplit {
    pub absolute: bool,
    pub count: usize,
    pub seg: [R; MAXSEG],
}

pub fn split_path(b: &[u8]) -> PathSplit {
    let n = b.len();
    let absolute = n > 0 && b[0] == b'/';
    let mut out = PathSplit { absolute, count: 0, seg: [(0, 0); MAXSEG] };
    if n == 0 || (n == 1 && absolute) {
        return out;
    }
    let mut start = if absolute { 1 } else { 0 };
    let mut i = start;
    while i <= n {
        if i == n || b[i] == b'/' {
            assert!(out.count < MAXSEG);
            out.seg[out.count] = (start, i);
            out.count += 1;
            start = i + 1;
        }
        i += 1;
    }
    out
}

/// Joining the pieces with '/' (after the optional leading '/') gives the text.
pub fn path_tiles(b: &[u8], s: &PathSplit) -> bool {
    let mut i = if s.absolute { 1 } else { 0 };
    let mut k = 0;
    while k < s.count {
        if s.seg[k].0 != i {
            return false;
        }
        i = s.seg[k].1;
        k += 1;
        if k < s.count {
            if i >= b.len() || b[i] != b'/' {
                return false;
            }
            i += 1;
        }
    }
    if s.count == 0 {
        return b.len() == i;
    }
    i == b.len()
}
