//! Reference oracles: short straight-line code over byte slices, written from
//! the RFC text and independent of iref (nothing here calls into iref).

pub type R = (usize, usize); // half-open byte range [start, end)

#[derive(Clone, Copy, PartialEq, Eq, Debug)]
pub struct RefSplit {
    pub scheme: Option<R>,
    pub authority: Option<R>,
    pub path: R,
    pub query: Option<R>,
    pub fragment: Option<R>,
}

#[inline(always)]
fn is_gen_stop(c: u8) -> bool {
    c == b':' || c == b'/' || c == b'?' || c == b'#'
}

/// RFC 3986 Appendix B:
/// `^(([^:/?#]+):)?(//([^/?#]*))?([^?#]*)(\?([^#]*))?(#(.*))?`
pub fn split_ref(b: &[u8]) -> RefSplit {
    let n = b.len();
    let mut i = 0;
    // (([^:/?#]+):)?
    let mut j = 0;
    while j < n && !is_gen_stop(b[j]) {
        j += 1;
    }
    let scheme = if j > 0 && j < n && b[j] == b':' {
        i = j + 1;
        Some((0, j))
    } else {
        None
    };
    // (//([^/?#]*))?
    let authority = if i + 1 < n && b[i] == b'/' && b[i + 1] == b'/' {
        let s = i + 2;
        let mut e = s;
        while e < n && b[e] != b'/' && b[e] != b'?' && b[e] != b'#' {
            e += 1;
        }
        i = e;
        Some((s, e))
    } else {
        None
    };
    // ([^?#]*)
    let ps = i;
    while i < n && b[i] != b'?' && b[i] != b'#' {
        i += 1;
    }
    let path = (ps, i);
    // (\?([^#]*))?
    let query = if i < n && b[i] == b'?' {
        let s = i + 1;
        let mut e = s;
        while e < n && b[e] != b'#' {
            e += 1;
        }
        i = e;
        Some((s, e))
    } else {
        None
    };
    // (#(.*))?
    let fragment = if i < n && b[i] == b'#' { Some((i + 1, n)) } else { None };
    RefSplit { scheme, authority, path, query, fragment }
}

/// RFC 3986 section 5.3 recomposition, as an index identity: the five ranges
/// tile `0..n` with exactly the delimiters `:`, `//`, `?`, `#` between them.
pub fn tiles(b: &[u8], s: &RefSplit) -> bool {
    let mut i = 0;
    if let Some((a, e)) = s.scheme {
        if a != 0 || e >= b.len() || b[e] != b':' {
            return false;
        }
        i = e + 1;
    }
    if let Some((a, e)) = s.authority {
        if a != i + 2 || a > b.len() || b[i] != b'/' || b[i + 1] != b'/' {
            return false;
        }
        i = e;
    }
    if s.path.0 != i {
        return false;
    }
    i = s.path.1;
    if let Some((a, e)) = s.query {
        if a != i + 1 || a > b.len() || b[i] != b'?' {
            return false;
        }
        i = e;
    }
    if let Some((a, e)) = s.fragment {
        if a != i + 1 || a > b.len() || b[i] != b'#' {
            return false;
        }
        i = e;
    }
    i == b.len()
}

#[derive(Clone, Copy, PartialEq, Eq, Debug)]
pub struct AuthSplit {
    pub user_info: Option<R>,
    pub host: R,
    pub port: Option<R>,
}

/// RFC 3986 section 3.2: `[ userinfo "@" ] host [ ":" port ]` where a host
/// that starts with `[` extends through the matching `]`.
pub fn split_auth(a: &[u8]) -> AuthSplit {
    let n = a.len();
    let mut at = 0;
    while at < n && a[at] != b'@' {
        at += 1;
    }
    let (user_info, hs) = if at < n { (Some((0, at)), at + 1) } else { (None, 0) };
    let mut he = hs;
    if he < n && a[he] == b'[' {
        while he < n && a[he] != b']' {
            he += 1;
        }
        if he < n {
            he += 1;
        }
    } else {
        while he < n && a[he] != b':' {
            he += 1;
        }
    }
    let port = if he < n { Some((he + 1, n)) } else { None };
    AuthSplit { user_info, host: (hs, he), port }
}

pub const MAXSEG: usize = 18;

/// The '/'-separated pieces of a path after the optional leading '/'.
/// `""` and `"/"` have no segment; `"/a/"` has two (`a` and the empty one).
#[derive(Clone, Copy)]
pub struct PathSplit {
    pub absolute: bool,
    pub count: usize,
    pub seg: [R; MAXSEG],
}

pub fn split_path(b: &[u8]) -> PathSplit {
    let n = b.len();
    let absolute = n > 0 && b[0] == b'/';
    let mut out = PathSplit { absolute, count: 0, seg: [(0, 0); MAXSEG] };
    if n == 0 || (n == 1 && absolute) {
        return out;
    }
    let mut start = if absolute { 1 } else { 0 };
    let mut i = start;
    while i <= n {
        if i == n || b[i] == b'/' {
            assert!(out.count < MAXSEG);
            out.seg[out.count] = (start, i);
            out.count += 1;
            start = i + 1;
        }
        i += 1;
    }
    out
}

/// Joining the pieces with '/' (after the optional leading '/') gives the text.
pub fn path_tiles(b: &[u8], s: &PathSplit) -> bool {
    let mut i = if s.absolute { 1 } else { 0 };
    let mut k = 0;
    while k < s.count {
        if s.seg[k].0 != i {
            return false;
        }
        i = s.seg[k].1;
        k += 1;
        if k < s.count {
            if i >= b.len() || b[i] != b'/' {
                return false;
            }
            i += 1;
        }
    }
    if s.count == 0 {
        return b.len() == i;
    }
    i == b.len()
}

pub const DEC_MAX: usize = 24;

#[inline(always)]
fn hexval(c: u8) -> u8 {
    if c.is_ascii_digit() {
        c - b'0'
    } else if c >= b'a' {
        c - b'a' + 10
    } else {
        c - b'A' + 10
    }
}

/// Percent-decoding: every `%XX` replaced by that octet, everything else kept.
/// (On a valid component every '%' is followed by two hex digits.)
pub fn pct_decode(b: &[u8]) -> ([u8; DEC_MAX], usize) {
    let mut out = [0u8; DEC_MAX];
    let mut n = 0;
    let mut i = 0;
    while i < b.len() {
        if b[i] == b'%' && i + 2 < b.len() {
            out[n] = (hexval(b[i + 1]) << 4) | hexval(b[i + 2]);
            i += 3;
        } else {
            out[n] = b[i];
            i += 1;
        }
        n += 1;
    }
    (out, n)
}

pub const OUT_MAX: usize = 40;

/// An output text under construction (fixed array).
#[derive(Clone, Copy)]
pub struct Out {
    pub buf: [u8; OUT_MAX],
    pub len: usize,
}

impl Out {
    pub fn new() -> Self {
        Out { buf: [0; OUT_MAX], len: 0 }
    }
    pub fn push(&mut self, c: u8) {
        assert!(self.len < OUT_MAX);
        self.buf[self.len] = c;
        self.len += 1;
    }
    pub fn extend(&mut self, s: &[u8]) {
        let mut i = 0;
        while i < s.len() {
            self.push(s[i]);
            i += 1;
        }
    }
    pub fn bytes(&self) -> &[u8] {
        &self.buf[..self.len]
    }
}

/// The five components of a reference, as byte slices.
#[derive(Clone, Copy)]
pub struct Comps<'a> {
    pub scheme: Option<&'a [u8]>,
    pub authority: Option<&'a [u8]>,
    pub path: &'a [u8],
    pub query: Option<&'a [u8]>,
    pub fragment: Option<&'a [u8]>,
}

pub fn comps_of<'a>(b: &'a [u8], s: &RefSplit) -> Comps<'a> {
    Comps {
        scheme: s.scheme.map(|(a, e)| &b[a..e]),
        authority: s.authority.map(|(a, e)| &b[a..e]),
        path: &b[s.path.0..s.path.1],
        query: s.query.map(|(a, e)| &b[a..e]),
        fragment: s.fragment.map(|(a, e)| &b[a..e]),
    }
}

/// The first segment of `path` (text up to the first '/') contains ':'.
pub fn first_segment_has_colon(path: &[u8]) -> bool {
    let mut i = 0;
    while i < path.len() && path[i] != b'/' {
        if path[i] == b':' {
            return true;
        }
        i += 1;
    }
    false
}

/// RFC 3986 section 5.3 recomposition plus the three documented
/// disambiguations, applied by an independent rule:
///  * relative path + authority            => '/' prefix
///  * path starting `//` + no authority    => '/.' prefix
///  * first segment with ':' + no scheme + no authority => './' prefix
pub fn recompose(c: &Comps) -> Out {
    recompose_with(c, true)
}

/// `slash_empty`: whether an *empty* path after an authority is rendered as
/// `/` (what the setters do when they touch the authority or the path) or left
/// empty (both are valid and unambiguous; see C05 in DESIGN.md).
pub fn recompose_with(c: &Comps, slash_empty: bool) -> Out {
    let mut o = Out::new();
    if let Some(s) = c.scheme {
        o.extend(s);
        o.push(b':');
    }
    if let Some(a) = c.authority {
        o.extend(b"//");
        o.extend(a);
    }
    let p = c.path;
    if c.authority.is_some() {
        if (p.is_empty() && slash_empty) || (!p.is_empty() && p[0] != b'/') {
            o.push(b'/');
        }
    } else if p.len() >= 2 && p[0] == b'/' && p[1] == b'/' {
        o.extend(b"/.");
    } else if c.scheme.is_none() && first_segment_has_colon(p) {
        o.extend(b"./");
    }
    o.extend(p);
    if let Some(q) = c.query {
        o.push(b'?');
        o.extend(q);
    }
    if let Some(f) = c.fragment {
        o.push(b'#');
        o.extend(f);
    }
    o
}

// ---------------------------------------------------------------- path lists
/// A segment sequence: ranges into some source text.
#[derive(Clone, Copy)]
pub struct SegList {
    pub n: usize,
    pub r: [R; MAXSEG],
}

impl SegList {
    pub fn empty() -> Self {
        SegList { n: 0, r: [(0, 0); MAXSEG] }
    }
    pub fn push(&mut self, r: R) {
        assert!(self.n < MAXSEG);
        self.r[self.n] = r;
        self.n += 1;
    }
    pub fn pop(&mut self) {
        assert!(self.n > 0);
        self.n -= 1;
    }
    pub fn of(split: &PathSplit) -> Self {
        SegList { n: split.count, r: split.seg }
    }
}

#[inline(always)]
pub fn seg<'a>(src: &'a [u8], r: R) -> &'a [u8] {
    &src[r.0..r.1]
}

pub fn is_dot(s: &[u8]) -> bool {
    s.len() == 1 && s[0] == b'.'
}
pub fn is_dotdot(s: &[u8]) -> bool {
    s.len() == 2 && s[0] == b'.' && s[1] == b'.'
}
pub fn has_colon(s: &[u8]) -> bool {
    let mut i = 0;
    while i < s.len() {
        if s[i] == b':' {
            return true;
        }
        i += 1;
    }
    false
}

/// A single leading `.` in front of a first segment that is empty or contains
/// ':' is a shield (it keeps the text from being misread); comparisons of
/// segment sequences are made modulo that shield, on both sides.
pub fn strip_shield(src: &[u8], l: &SegList) -> SegList {
    if l.n >= 2 && is_dot(seg(src, l.r[0])) {
        let s1 = seg(src, l.r[1]);
        if s1.is_empty() || has_colon(s1) {
            let mut o = SegList::empty();
            let mut i = 1;
            while i < l.n {
                o.push(l.r[i]);
                i += 1;
            }
            return o;
        }
    }
    *l
}

pub fn lists_equal(sa: &[u8], a: &SegList, sb: &[u8], b: &SegList) -> bool {
    if a.n != b.n {
        return false;
    }
    let mut i = 0;
    while i < a.n {
        let x = seg(sa, a.r[i]);
        let y = seg(sb, b.r[i]);
        if x.len() != y.len() {
            return false;
        }
        let mut k = 0;
        while k < x.len() {
            if x[k] != y[k] {
                return false;
            }
            k += 1;
        }
        i += 1;
    }
    true
}

/// Equality of segment sequences modulo the shield.
pub fn lists_equal_mod_shield(sa: &[u8], a: &SegList, sb: &[u8], b: &SegList) -> bool {
    let a2 = strip_shield(sa, a);
    let b2 = strip_shield(sb, b);
    lists_equal(sa, &a2, sb, &b2)
}

/// RFC 3986 5.2.4 with Errata 4547 on a segment sequence: drop `.`; `..`
/// removes the previous segment, or is kept when the path is relative and
/// nothing (but `..`) is left to remove, or is dropped at the root.
pub fn normalize_list(src: &[u8], l: &SegList, absolute: bool) -> SegList {
    let mut st = SegList::empty();
    let mut i = 0;
    while i < l.n {
        let s = seg(src, l.r[i]);
        if is_dot(s) {
        } else if is_dotdot(s) {
            if st.n > 0 && !is_dotdot(seg(src, st.r[st.n - 1])) {
                st.pop();
            } else if !absolute {
                st.push(l.r[i]);
            }
        } else {
            st.push(l.r[i]);
        }
        i += 1;
    }
    st
}

/// One step of "symbolic" pushing: `.` and `..` with their directory meaning
/// against the segments already there (which are not themselves normalised).
/// Returns true when the pushed segment was a dot segment.
pub fn symbolic_step(src: &[u8], l: &mut SegList, absolute: bool, s: R, dotdot: R) -> bool {
    let t = seg(src, s);
    if is_dot(t) {
        true
    } else if is_dotdot(t) {
        list_pop(src, l, absolute, dotdot);
        true
    } else {
        if !t.is_empty() || l.n > 0 {
            l.push(s);
        }
        false
    }
}

/// `pop`: removes the last segment; on an empty relative path or a path ending
/// in `..` appends `..` instead; an empty absolute path is left alone.
pub fn list_pop(src: &[u8], l: &mut SegList, absolute: bool, dotdot: R) {
    if (l.n == 0 && !absolute) || (l.n > 0 && is_dotdot(seg(src, l.r[l.n - 1]))) {
        l.push(dotdot);
    } else if l.n > 0 {
        l.pop();
    }
}


/// `out` is exactly the concatenation of `pieces`.  `out` is read at concrete
/// positions `0..k` only (see `pieces_eq_k`); `k` is a constant at the call site.
pub fn concat_eq(out: &[u8], pieces: &[&[u8]], k: usize) -> bool {
    let mut total = 0;
    let mut j = 0;
    while j < pieces.len() {
        total += pieces[j].len();
        j += 1;
    }
    if out.len() != total {
        return false;
    }
    assert!(total <= k, "oracle: expected text longer than the stated bound");
    let mut i = 0;
    while i < k {
        if i < total {
            let mut off = 0;
            let mut e = 0u8;
            let mut j = 0;
            while j < pieces.len() {
                let p = pieces[j];
                if i >= off && i < off + p.len() {
                    e = p[i - off];
                }
                off += p.len();
                j += 1;
            }
            if out[i] != e {
                return false;
            }
        }
        i += 1;
    }
    true
}

/// The pieces of the RFC 3986 5.3 recomposition of `c` with the three
/// documented disambiguations (see `recompose_with`).
pub fn recompose_pieces<'a>(c: &Comps<'a>, slash_empty: bool) -> [&'a [u8]; 10] {
    let e: &'static [u8] = b"";
    let p = c.path;
    let shield: &'static [u8] = if c.authority.is_some() {
        if (p.is_empty() && slash_empty) || (!p.is_empty() && p[0] != b'/') {
            b"/"
        } else {
            b""
        }
    } else if p.len() >= 2 && p[0] == b'/' && p[1] == b'/' {
        b"/."
    } else if c.scheme.is_none() && first_segment_has_colon(p) {
        b"./"
    } else {
        b""
    };
    [
        c.scheme.unwrap_or(e),
        if c.scheme.is_some() { b":" } else { e },
        if c.authority.is_some() { b"//" } else { e },
        c.authority.unwrap_or(e),
        shield,
        p,
        if c.query.is_some() { b"?" } else { e },
        c.query.unwrap_or(e),
        if c.fragment.is_some() { b"#" } else { e },
        c.fragment.unwrap_or(e),
    ]
}

// ------------------------------------------------------------ exact renderings
/// `out == prefix ++ ["/" if absolute] ++ ["./" if shield] ++ join(l, "/") ++ suffix`.
/// `out` is only ever read at *concrete* positions `0..k` (`k` and `maxseg`
/// are constants at the call site): reading a spliced heap buffer at symbolic
/// offsets is what makes the SAT encoding of these harnesses explode; prefix,
/// suffix and the segments are slices of the symbolic inputs.
pub fn rendering_eq_k(out: &[u8], prefix: &[u8], src: &[u8], l: &SegList, absolute: bool, shield: bool, suffix: &[u8], k: usize, maxseg: usize) -> bool {
    assert!(l.n <= maxseg, "oracle: more segments than the stated bound");
    let mut total = prefix.len() + suffix.len() + (absolute as usize) + if shield { 2 } else { 0 };
    let mut s = 0;
    while s < maxseg {
        if s < l.n {
            total += l.r[s].1 - l.r[s].0;
            if s + 1 < l.n {
                total += 1;
            }
        }
        s += 1;
    }
    if out.len() != total {
        return false;
    }
    assert!(total <= k, "oracle: expected text longer than the stated bound");
    let mut i = 0;
    while i < k {
        if i < total {
            let mut pos = i;
            let mut e = 0u8;
            let mut found = false;
            if pos < prefix.len() {
                e = prefix[pos];
                found = true;
            } else {
                pos -= prefix.len();
            }
            if !found && absolute {
                if pos == 0 {
                    e = b'/';
                    found = true;
                } else {
                    pos -= 1;
                }
            }
            if !found && shield {
                if pos < 2 {
                    e = if pos == 0 { b'.' } else { b'/' };
                    found = true;
                } else {
                    pos -= 2;
                }
            }
            let mut s = 0;
            while s < maxseg {
                if !found && s < l.n {
                    let (a, b) = l.r[s];
                    if pos < b - a {
                        e = src[a + pos];
                        found = true;
                    } else {
                        pos -= b - a;
                        if s + 1 < l.n {
                            if pos == 0 {
                                e = b'/';
                                found = true;
                            } else {
                                pos -= 1;
                            }
                        }
                    }
                }
                s += 1;
            }
            if !found {
                e = suffix[pos];
            }
            if out[i] != e {
                return false;
            }
        }
        i += 1;
    }
    true
}

/// The plain (unshielded) rendering of `l` is faithful: it reads back as `l`.
pub fn plain_rendering_ok(src: &[u8], l: &SegList, absolute: bool) -> bool {
    if l.n == 0 {
        return true;
    }
    let first = seg(src, l.r[0]);
    if first.is_empty() {
        // "/" + "" is the root (no segment); "" + "/x" would be absolute
        return absolute && l.n >= 2;
    }
    true
}

/// A `.` shield in front of `l` is permitted: the first segment is empty or
/// contains ':'.
pub fn shield_permitted(src: &[u8], l: &SegList) -> bool {
    l.n >= 1 && {
        let first = seg(src, l.r[0]);
        first.is_empty() || has_colon(first)
    }
}
