//! C08 / C07 — whole values: authorities, references, and the views of one
//! value that the library lets callers interchange as map keys.
use crate::c07::{Stream, EQ, HASH, ORD};
use crate::oracle::{comps_of, normalize_list, pct_decode, seg, split_auth, split_path, split_ref, SegList};
use crate::sym::{as_str, assume, bytes_eq, vec_of, Text};
use crate::{cover, tables};
use iref_core::{iri, uri, Iri, IriBuf, IriRef, IriRefBuf, Uri, UriBuf, UriRef, UriRefBuf};
use std::borrow::Borrow;
use std::cmp::Ordering;
use std::mem::forget;

fn lex(a: &[u8], b: &[u8]) -> Ordering {
    let mut i = 0;
    loop {
        if i == a.len() && i == b.len() {
            return Ordering::Equal;
        }
        if i == a.len() {
            return Ordering::Less;
        }
        if i == b.len() {
            return Ordering::Greater;
        }
        if a[i] != b[i] {
            return if a[i] < b[i] { Ordering::Less } else { Ordering::Greater };
        }
        i += 1;
    }
}

fn dec_cmp(a: &[u8], b: &[u8]) -> Ordering {
    let (da, x) = pct_decode(a);
    let (db, y) = pct_decode(b);
    lex(&da[..x], &db[..y])
}

fn opt_cmp(a: Option<&[u8]>, b: Option<&[u8]>, f: fn(&[u8], &[u8]) -> Ordering) -> Ordering {
    match (a, b) {
        (None, None) => Ordering::Equal,
        (None, Some(_)) => Ordering::Less,
        (Some(_), None) => Ordering::Greater,
        (Some(x), Some(y)) => f(x, y),
    }
}

/// Authorities: (user info | absent, host, port | absent), user info and host
/// percent-decoded, port literal.
pub fn authority_order(a: &[u8], b: &[u8]) -> Ordering {
    let (sa, sb) = (split_auth(a), split_auth(b));
    let c = opt_cmp(sa.user_info.map(|(x, e)| &a[x..e]), sb.user_info.map(|(x, e)| &b[x..e]), dec_cmp);
    if c != Ordering::Equal {
        return c;
    }
    let c = dec_cmp(&a[sa.host.0..sa.host.1], &b[sb.host.0..sb.host.1]);
    if c != Ordering::Equal {
        return c;
    }
    opt_cmp(sa.port.map(|(x, e)| &a[x..e]), sb.port.map(|(x, e)| &b[x..e]), lex)
}

pub fn path_order(a: &[u8], b: &[u8]) -> Ordering {
    let aa = a.first() == Some(&b'/');
    let ba = b.first() == Some(&b'/');
    if aa != ba {
        return if aa { Ordering::Greater } else { Ordering::Less };
    }
    let la = SegList::of(&split_path(a));
    let lb = SegList::of(&split_path(b));
    let na = normalize_list(a, &la, aa);
    let nb = normalize_list(b, &lb, ba);
    let mut i = 0;
    loop {
        if i == na.n && i == nb.n {
            return Ordering::Equal;
        }
        if i == na.n {
            return Ordering::Less;
        }
        if i == nb.n {
            return Ordering::Greater;
        }
        let c = dec_cmp(seg(a, na.r[i]), seg(b, nb.r[i]));
        if c != Ordering::Equal {
            return c;
        }
        i += 1;
    }
}

/// References: scheme literal; authority; path; query; fragment.
pub fn ref_order(a: &[u8], b: &[u8]) -> Ordering {
    let (sa, sb) = (split_ref(a), split_ref(b));
    let (ca, cb) = (comps_of(a, &sa), comps_of(b, &sb));
    let c = opt_cmp(ca.scheme, cb.scheme, lex);
    if c != Ordering::Equal {
        return c;
    }
    let c = opt_cmp(ca.authority, cb.authority, authority_order);
    if c != Ordering::Equal {
        return c;
    }
    let c = path_order(ca.path, cb.path);
    if c != Ordering::Equal {
        return c;
    }
    let c = opt_cmp(ca.query, cb.query, dec_cmp);
    if c != Ordering::Equal {
        return c;
    }
    opt_cmp(ca.fragment, cb.fragment, dec_cmp)
}

macro_rules! check_pair {
    ($x:expr, $y:expr, $want:expr, $what:literal) => {{
        let want: Ordering = $want;
        let eq = *$x == *$y;
        assert!(eq == (want == Ordering::Equal), "C07: equality differs from equality of the canonical forms");
        assert!((*$y == *$x) == eq, "C07: equality is not symmetric");
        let c = $x.cmp($y);
        assert!(c == want, "C08: ordering differs from the order of the canonical forms");
        assert!($y.cmp($x) == want.reverse(), "C08: ordering is not antisymmetric");
        assert!($x.partial_cmp($y) == Some(c), "C08: partial_cmp != Some(cmp)");
        if eq {
            assert!(Stream::of($x).same_as($y), "C08: equal values feed different data to the hasher");
        }
    }};
}

macro_rules! check_mode {
    ($mode:expr, $x:expr, $y:expr, $want:expr, $what:literal) => {{
        let want: Ordering = $want;
        if $mode == EQ {
            let eq = *$x == *$y;
            assert!(eq == (want == Ordering::Equal), "C07: equality differs from equality of the canonical forms");
            assert!((*$y == *$x) == eq, "C07: equality is not symmetric");
        } else if $mode == ORD {
            let c = $x.cmp($y);
            assert!(c == want, "C08: ordering differs from the order of the canonical forms");
            assert!($x.partial_cmp($y) == Some(c), "C08: partial_cmp != Some(cmp)");
        } else {
            if want == Ordering::Equal {
                assert!(Stream::of($x).same_as($y), "C08: equal values feed different data to the hasher");
            }
        }
    }};
}

pub const AUTH_REPS: [&[u8]; 8] = [b"h", b"u@h", b"h:1", b"[::]", b"%68", b"", b"@h:", b"u%40@h"];

fn authority_vs_rep<const N: usize, const K: usize, const MODE: u8>() {
    let t = Text::<N>::any();
    let a = t.bytes();
    assume(tables::t_uri_authority_valid_k(a, N));
    let x = unsafe { uri::Authority::new_unchecked(a) };
    let r = AUTH_REPS[K];
    let y = unsafe { uri::Authority::new_unchecked(r) };
    let want = authority_order(a, r);
    check_mode!(MODE, x, y, want, "uri::Authority");
    cover!(want == Ordering::Equal && a.len() != r.len(), "equal to the representative with a different text");
    cover!(want != Ordering::Equal, "different from the representative");
}

// @h prop=C07,C08 tier=quick kind=check timeout=2400 mem=6 bound="uri::Authority <= 6 bytes x representative 'u@h' (both orders)" encodes="PartialEq/Ord/Hash for uri::Authority via AuthorityParts (derived);AuthorityImpl::parts"
#[cfg_attr(kani, kani::proof)]
#[cfg_attr(kani, kani::unwind(10))]
pub fn c08_authority_vs_rep1_n6() {
    authority_vs_rep::<6, 1, EQ>()
}

// @h prop=C07,C08 tier=quick kind=check timeout=2400 mem=6 bound="uri::Authority <= 6 bytes x representative 'h:1' (both orders)" encodes="same as c08_authority_vs_rep1_n6"
#[cfg_attr(kani, kani::proof)]
#[cfg_attr(kani, kani::unwind(10))]
pub fn c08_authority_vs_rep2_n6() {
    authority_vs_rep::<6, 2, ORD>()
}

pub const REF_REPS: [&[u8]; 10] = [b"s:", b"s://h/a?q#f", b"a", b"?", b"#", b"//h", b"s:a/..", b"S:", b"s:/%61", b"//h/"];

fn uriref_vs_rep<const N: usize, const K: usize, const MODE: u8>() {
    let t = Text::<N>::any();
    let a = t.bytes();
    assume(tables::t_uri_uriref_valid_k(a, N));
    let x = unsafe { UriRef::new_unchecked(a) };
    let r = REF_REPS[K];
    let y = unsafe { UriRef::new_unchecked(r) };
    let want = ref_order(a, r);
    check_mode!(MODE, x, y, want, "UriRef");
    cover!(want == Ordering::Equal && a.len() != r.len(), "equal to the representative with a different text");
    cover!(want != Ordering::Equal, "different from the representative");
}

// @h prop=C07,C08 tier=thorough kind=check timeout=3000 mem=30 bound="UriRef <= 5 bytes x representative 's:a/..' (both orders)" encodes="PartialEq/Ord/Hash for UriRef via UriRefParts (derived);UriRef::parts;Path/Authority/Query/Fragment comparisons"
#[cfg_attr(kani, kani::proof)]
#[cfg_attr(kani, kani::unwind(10))]
#[cfg_attr(kani, kani::stub(smallvec::SmallVec::try_grow, crate::stubs::sv_try_grow))]
#[cfg_attr(kani, kani::stub(smallvec::SmallVec::push, crate::stubs::sv_push))]
pub fn c08_uriref_vs_rep6_n5() {
    uriref_vs_rep::<5, 6, EQ>()
}

/// Views of ONE value: owned vs borrowed, URI vs the same text as a reference,
/// URI family vs IRI family.  They must compare equal, order Equal and feed
/// the hasher identical data (the `Borrow` contract of hashed/ordered maps).
/// One pair of views per harness (every hash re-normalises the path).
pub const V_URIREF: u8 = 0;
pub const V_IRI: u8 = 1;
pub const V_IRIREF: u8 = 2;
pub const V_BUF: u8 = 3;
pub const V_CMP: u8 = 4;

fn uri_views<const N: usize, const V: u8>() {
    let t = Text::<N>::any();
    let a = t.bytes();
    assume(tables::t_uri_uri_valid_k(a, N));
    let u = unsafe { Uri::new_unchecked(a) };
    if V == V_URIREF {
        let r: &UriRef = u.borrow();
        assert!(Stream::of(u).same_as(r), "C08: Uri and the same text as UriRef hash differently (Borrow<UriRef> for Uri)");
    } else if V == V_IRI {
        let i: &Iri = u.borrow();
        assert!(Stream::of(u).same_as(i), "C08: Uri and the same text as Iri hash differently (Borrow<Iri> for Uri)");
    } else if V == V_IRIREF {
        let ir: &IriRef = u.borrow();
        assert!(Stream::of(u).same_as(ir), "C08: Uri and the same text as IriRef hash differently (Borrow<IriRef> for Uri)");
    } else if V == V_BUF {
        let b = unsafe { UriBuf::new_unchecked(vec_of(a)) };
        assert!(Stream::of(u).same_as(&b), "C08: UriBuf hashes differently from the Uri it borrows as");
        let ub: &Uri = b.borrow();
        assert!(ub.as_bytes().as_ptr() == b.as_bytes().as_ptr(), "Borrow<Uri> for UriBuf is not a view");
        forget(b);
    } else {
        let r: &UriRef = u.borrow();
        assert!(*u == *r && *r == *u, "C08: Uri != the same text as UriRef");
        assert!(u.partial_cmp(r) == Some(Ordering::Equal), "C08: Uri vs UriRef ordering");
        assert!(u.cmp(u) == Ordering::Equal, "C08: a value does not order Equal to itself");
    }
    cover!(u.authority().is_some() && u.query().is_some(), "authority and query present");
    cover!(a.len() == N, "maximal length");
}

// @h prop=C08 tier=thorough kind=check timeout=3000 mem=30 bound="Uri text <= 5 bytes: hash stream of Uri vs the same text as UriRef" encodes="Hash for Uri and UriRef;Borrow<UriRef> for Uri"
#[cfg_attr(kani, kani::proof)]
#[cfg_attr(kani, kani::unwind(10))]
#[cfg_attr(kani, kani::stub(smallvec::SmallVec::try_grow, crate::stubs::sv_try_grow))]
#[cfg_attr(kani, kani::stub(smallvec::SmallVec::push, crate::stubs::sv_push))]
pub fn c08_uri_vs_uriref_hash_n5() {
    uri_views::<5, V_URIREF>()
}

// @h prop=C08 tier=thorough kind=check timeout=3000 mem=24 bound="Uri text <= 5 bytes: hash stream of Uri vs the same text as Iri" encodes="Hash for Uri and Iri;Borrow<Iri> for Uri"
#[cfg_attr(kani, kani::proof)]
#[cfg_attr(kani, kani::unwind(10))]
#[cfg_attr(kani, kani::stub(smallvec::SmallVec::try_grow, crate::stubs::sv_try_grow))]
#[cfg_attr(kani, kani::stub(smallvec::SmallVec::push, crate::stubs::sv_push))]
pub fn c08_uri_vs_iri_hash_n5() {
    uri_views::<5, V_IRI>()
}

// @h prop=C08 tier=thorough kind=check timeout=3000 mem=24 bound="Uri text <= 5 bytes: hash stream of Uri vs the same text as IriRef" encodes="Hash for Uri and IriRef;Borrow<IriRef> for Uri"
#[cfg_attr(kani, kani::proof)]
#[cfg_attr(kani, kani::unwind(10))]
#[cfg_attr(kani, kani::stub(smallvec::SmallVec::try_grow, crate::stubs::sv_try_grow))]
#[cfg_attr(kani, kani::stub(smallvec::SmallVec::push, crate::stubs::sv_push))]
pub fn c08_uri_vs_iriref_hash_n5() {
    uri_views::<5, V_IRIREF>()
}

// @h prop=C08 tier=thorough kind=check timeout=3000 mem=30 bound="Uri text <= 5 bytes: hash stream of UriBuf vs Uri" encodes="derived Hash for UriBuf (forwarding);Borrow<Uri> for UriBuf"
#[cfg_attr(kani, kani::proof)]
#[cfg_attr(kani, kani::unwind(10))]
#[cfg_attr(kani, kani::stub(smallvec::SmallVec::try_grow, crate::stubs::sv_try_grow))]
#[cfg_attr(kani, kani::stub(smallvec::SmallVec::push, crate::stubs::sv_push))]
pub fn c08_uribuf_vs_uri_hash_n5() {
    uri_views::<5, V_BUF>()
}

// @h prop=C08 tier=thorough kind=check timeout=3000 mem=24 bound="Uri text <= 5 bytes: Uri vs UriRef equality and ordering" encodes="PartialEq<UriRef>/PartialOrd<UriRef> for Uri and converse"
#[cfg_attr(kani, kani::proof)]
#[cfg_attr(kani, kani::unwind(10))]
#[cfg_attr(kani, kani::stub(smallvec::SmallVec::try_grow, crate::stubs::sv_try_grow))]
#[cfg_attr(kani, kani::stub(smallvec::SmallVec::push, crate::stubs::sv_push))]
pub fn c08_uri_vs_uriref_cmp_n5() {
    uri_views::<5, V_CMP>()
}

fn iri_views<const N: usize>() {
    let t = Text::<N>::any();
    let a = t.bytes();
    assume(tables::t_iri_iri_valid_k(a, N));
    let u = unsafe { Iri::new_unchecked(as_str(a)) };
    let r: &IriRef = u.borrow();
    assert!(Stream::of(u).same_as(r), "C08: Iri and the same text as IriRef hash differently (Borrow<IriRef> for Iri)");
    cover!(a.len() >= 4 && a[2] >= 0xC2, "non-ASCII text");
}

// @h prop=C08 tier=thorough kind=check timeout=3000 mem=30 bound="Iri text <= 5 bytes (UTF-8): hash stream of Iri vs the same text as IriRef" encodes="Hash for Iri and IriRef;Borrow<IriRef> for Iri"
#[cfg_attr(kani, kani::proof)]
#[cfg_attr(kani, kani::unwind(10))]
#[cfg_attr(kani, kani::stub(smallvec::SmallVec::try_grow, crate::stubs::sv_try_grow))]
#[cfg_attr(kani, kani::stub(smallvec::SmallVec::push, crate::stubs::sv_push))]
pub fn c08_iri_vs_iriref_hash_n5() {
    iri_views::<5>()
}

// @h prop=C07,C08 tier=thorough kind=check timeout=3000 mem=20 bound="uri::Authority <= 7 bytes x representative 'h' (both orders)" encodes="same as c08_authority_vs_rep1_n6"
#[cfg_attr(kani, kani::proof)]
#[cfg_attr(kani, kani::unwind(10))]
pub fn c08_authority_vs_rep0_n7() {
    authority_vs_rep::<7, 0, EQ>()
}

// @h prop=C07,C08 tier=thorough kind=check timeout=3000 mem=20 bound="uri::Authority <= 7 bytes x representative 'u@h' (both orders)" encodes="same as c08_authority_vs_rep1_n6"
#[cfg_attr(kani, kani::proof)]
#[cfg_attr(kani, kani::unwind(10))]
pub fn c08_authority_vs_rep1_n7() {
    authority_vs_rep::<7, 1, EQ>()
}

// @h prop=C07,C08 tier=thorough kind=check timeout=3000 mem=20 bound="uri::Authority <= 7 bytes x representative 'h:1' (both orders)" encodes="same as c08_authority_vs_rep1_n6"
#[cfg_attr(kani, kani::proof)]
#[cfg_attr(kani, kani::unwind(10))]
pub fn c08_authority_vs_rep2_n7() {
    authority_vs_rep::<7, 2, EQ>()
}

// @h prop=C07,C08 tier=thorough kind=check timeout=3000 mem=20 bound="uri::Authority <= 7 bytes x representative '[::]' (both orders)" encodes="same as c08_authority_vs_rep1_n6"
#[cfg_attr(kani, kani::proof)]
#[cfg_attr(kani, kani::unwind(10))]
pub fn c08_authority_vs_rep3_n7() {
    authority_vs_rep::<7, 3, EQ>()
}

// @h prop=C07,C08 tier=thorough kind=check timeout=3000 mem=20 bound="uri::Authority <= 7 bytes x representative '%68' (both orders)" encodes="same as c08_authority_vs_rep1_n6"
#[cfg_attr(kani, kani::proof)]
#[cfg_attr(kani, kani::unwind(10))]
pub fn c08_authority_vs_rep4_n7() {
    authority_vs_rep::<7, 4, EQ>()
}

// @h prop=C07,C08 tier=thorough kind=check timeout=3000 mem=20 bound="uri::Authority <= 7 bytes x representative '' (both orders)" encodes="same as c08_authority_vs_rep1_n6"
#[cfg_attr(kani, kani::proof)]
#[cfg_attr(kani, kani::unwind(10))]
pub fn c08_authority_vs_rep5_n7() {
    authority_vs_rep::<7, 5, EQ>()
}

// @h prop=C07,C08 tier=thorough kind=check timeout=3000 mem=20 bound="uri::Authority <= 7 bytes x representative '@h:' (both orders)" encodes="same as c08_authority_vs_rep1_n6"
#[cfg_attr(kani, kani::proof)]
#[cfg_attr(kani, kani::unwind(10))]
pub fn c08_authority_vs_rep6_n7() {
    authority_vs_rep::<7, 6, EQ>()
}

// @h prop=C07,C08 tier=thorough kind=check timeout=3000 mem=20 bound="uri::Authority <= 7 bytes x representative 'u%40@h' (both orders)" encodes="same as c08_authority_vs_rep1_n6"
#[cfg_attr(kani, kani::proof)]
#[cfg_attr(kani, kani::unwind(10))]
pub fn c08_authority_vs_rep7_n7() {
    authority_vs_rep::<7, 7, EQ>()
}

// @h prop=C07,C08 tier=thorough kind=check timeout=5400 mem=26 bound="UriRef <= 6 bytes x representative 's://h/a?q#f' (both orders)" encodes="same as c08_uriref_vs_rep6_n5"
#[cfg_attr(kani, kani::proof)]
#[cfg_attr(kani, kani::unwind(14))]
#[cfg_attr(kani, kani::stub(smallvec::SmallVec::try_grow, crate::stubs::sv_try_grow))]
#[cfg_attr(kani, kani::stub(smallvec::SmallVec::push, crate::stubs::sv_push))]
pub fn c08_uriref_vs_rep1_n6() {
    uriref_vs_rep::<6, 1, EQ>()
}

// @h prop=C07,C08 tier=thorough kind=check timeout=5400 mem=26 bound="UriRef <= 6 bytes x representative 's:a/..' (both orders)" encodes="same as c08_uriref_vs_rep6_n5"
#[cfg_attr(kani, kani::proof)]
#[cfg_attr(kani, kani::unwind(14))]
#[cfg_attr(kani, kani::stub(smallvec::SmallVec::try_grow, crate::stubs::sv_try_grow))]
#[cfg_attr(kani, kani::stub(smallvec::SmallVec::push, crate::stubs::sv_push))]
pub fn c08_uriref_vs_rep6_n6() {
    uriref_vs_rep::<6, 6, EQ>()
}

// @h prop=C08 tier=thorough kind=check timeout=2400 mem=40 bound="Uri text <= 3 bytes: hash stream of Uri vs the same text as UriRef" encodes="Hash for Uri and UriRef;Borrow<UriRef> for Uri"
#[cfg_attr(kani, kani::proof)]
#[cfg_attr(kani, kani::unwind(10))]
#[cfg_attr(kani, kani::stub(smallvec::SmallVec::try_grow, crate::stubs::sv_try_grow))]
#[cfg_attr(kani, kani::stub(smallvec::SmallVec::push, crate::stubs::sv_push))]
pub fn c08_uri_vs_uriref_hash_n3() {
    uri_views::<3, V_URIREF>()
}

// @h prop=C07,C08 tier=quick kind=check timeout=2400 mem=6 bound="uri::Authority <= 6 bytes x representative 'h:1': equal values hash identically" encodes="Hash for uri::Authority via AuthorityParts (derived)"
#[cfg_attr(kani, kani::proof)]
#[cfg_attr(kani, kani::unwind(10))]
pub fn c08_authority_hash_rep2_n6() {
    authority_vs_rep::<6, 2, HASH>()
}

// @h prop=C07,C08 tier=quick kind=check timeout=2400 mem=6 bound="uri::Authority <= 4 bytes x representative 'h' (both orders): presence vs emptiness of port and user info (h: / @h / %68 vs h)" encodes="same as c08_authority_vs_rep1_n6"
#[cfg_attr(kani, kani::proof)]
#[cfg_attr(kani, kani::unwind(8))]
pub fn c08_authority_vs_rep0_n4() {
    authority_vs_rep::<4, 0, EQ>()
}
