//! C10 / C04 — path editing has list semantics and touches nothing but the
//! path; the handle keeps viewing exactly the path (invariant I).
use crate::oracle::{
    comps_of, list_pop, plain_rendering_ok, rendering_eq_k, shield_permitted, split_path, split_ref, strip_shield, symbolic_step, SegList, R,
};
use crate::sym::{any_u8, as_str, assume, bytes_eq, vec_cap, vec_of, Text};
use crate::{cover, tables};
use iref_core::{iri, uri, IriRefBuf, UriBuf, UriRefBuf};
use std::mem::forget;

pub const PUSH: u8 = 0;
pub const POP: u8 = 1;
pub const CLEAR: u8 = 2;
pub const SYMBOLIC_PUSH: u8 = 3;
pub const SYMBOLIC_APPEND: u8 = 4;

/// Source text of the expected list, at CONCRETE offsets: the old path in
/// `0..N`, the argument in `N..N+M`, `..` in `N+M..N+M+2` (every write below is
/// at a concrete index; only the reads of the inputs are symbolic).
struct Src {
    text: [u8; 24],
    arg: R,
    dotdot: R,
}

fn src_of<const N: usize, const M: usize>(oldp: &[u8], arg: &[u8]) -> Src {
    assert!(oldp.len() <= N && arg.len() <= M && N + M + 2 <= 24);
    let mut text = [0u8; 24];
    let mut i = 0;
    while i < N {
        if i < oldp.len() {
            text[i] = oldp[i];
        }
        i += 1;
    }
    let mut j = 0;
    while j < M {
        if j < arg.len() {
            text[N + j] = arg[j];
        }
        j += 1;
    }
    text[N + M] = b'.';
    text[N + M + 1] = b'.';
    Src { text, arg: (N, N + arg.len()), dotdot: (N + M, N + M + 2) }
}

/// The path `got` (a slice of the spliced buffer, or the whole stand-alone
/// buffer) is `prefix ++ rendering(want) ++ suffix`, the rendering being plain
/// where that reads back faithfully, with or without a literal leading `.`
/// that only shields, or behind the `.` shield where permitted.
fn is_rendering(out: &[u8], prefix: &[u8], s: &Src, want: &SegList, absolute: bool, suffix: &[u8], k: usize, maxseg: usize) -> bool {
    let src: &[u8] = &s.text;
    let stripped = strip_shield(src, want);
    (plain_rendering_ok(src, want, absolute) && rendering_eq_k(out, prefix, src, want, absolute, false, suffix, k, maxseg))
        || (plain_rendering_ok(src, &stripped, absolute) && rendering_eq_k(out, prefix, src, &stripped, absolute, false, suffix, k, maxseg))
        || (shield_permitted(src, &stripped) && rendering_eq_k(out, prefix, src, &stripped, absolute, true, suffix, k, maxseg))
}

/// Expected segment sequence after `op` (list semantics, DESIGN C10).
fn expected_list(op: u8, s: &Src, oldp_len: usize, absolute: bool) -> SegList {
    let src: &[u8] = &s.text;
    let mut l = SegList::of(&split_path(&src[..oldp_len]));
    match op {
        PUSH => l.push(s.arg),
        POP => list_pop(src, &mut l, absolute, s.dotdot),
        CLEAR => l = SegList::empty(),
        SYMBOLIC_PUSH => {
            let open = symbolic_step(src, &mut l, absolute, s.arg, s.dotdot);
            if open && l.n > 0 {
                l.push((s.arg.0, s.arg.0)); // the empty segment: trailing '/'
            }
        }
        _ => {
            // SYMBOLIC_APPEND: the argument is a path; fold over its segments
            let ap = split_path(&src[s.arg.0..s.arg.1]);
            let mut open = false;
            let mut i = 0;
            while i < ap.count {
                let r = (s.arg.0 + ap.seg[i].0, s.arg.0 + ap.seg[i].1);
                open = symbolic_step(src, &mut l, absolute, r, s.dotdot);
                i += 1;
            }
            if open && l.n > 0 {
                l.push((s.arg.0, s.arg.0));
            }
        }
    }
    l
}

macro_rules! apply_op {
    ($pm:expr, $op:expr, $seg:expr, $path:expr) => {
        match $op {
            PUSH => $pm.push($seg),
            POP => {
                $pm.pop();
            }
            CLEAR => $pm.clear(),
            SYMBOLIC_PUSH => $pm.symbolic_push($seg),
            _ => $pm.symbolic_append($path.segments()),
        }
    };
}

/// What the op-specific reachability witnesses look at.
pub struct Seen {
    pub in_len: usize,
    pub out_len: usize,
    pub arg_len: usize,
    pub no_scheme_no_authority: bool,
    pub old_path_empty: bool,
    pub after_authority: bool,
    pub has_query: bool,
    pub want_n: usize,
}

fn covers_push(c: &Seen) {
    cover!(c.after_authority && c.old_path_empty, "empty path after an authority");
    cover!(c.no_scheme_no_authority && c.old_path_empty && c.out_len == c.arg_len + 2, "a shield was inserted in front of the pushed segment");
    cover!(c.has_query && c.out_len != c.in_len, "text after the path was moved");
}

fn covers_pop(c: &Seen) {
    cover!(c.after_authority && c.old_path_empty, "empty path after an authority");
    cover!(c.out_len > c.in_len, "pop appended '..'");
    cover!(c.out_len + 2 <= c.in_len, "pop removed a segment of at least one byte");
    cover!(c.has_query && c.out_len != c.in_len, "text after the path was moved");
}

/// Quick-tier witnesses: each `kani::cover!` is one more satisfiable SAT
/// query on the full formula (25-110 s each for an embedded edit), so the quick
/// harnesses keep the one that shows the edit moved the text that follows the
/// path; the thorough harnesses keep them all.
fn covers_push_min(c: &Seen) {
    cover!(c.has_query && c.out_len != c.in_len, "text after the path was moved");
}

fn covers_pop_min(c: &Seen) {
    cover!(c.has_query && c.out_len + 2 <= c.in_len, "pop removed a segment of at least one byte in front of a query");
}

fn covers_clear(c: &Seen) {
    cover!(c.after_authority && c.old_path_empty, "empty path after an authority");
    cover!(c.has_query && c.out_len + 2 <= c.in_len, "text after the path was moved");
    cover!(c.want_n == 0 && c.out_len == c.in_len, "nothing to clear");
}

fn covers_standalone_push(c: &Seen) {
    cover!(c.old_path_empty && c.out_len == c.arg_len + 2, "a shield was inserted");
    cover!(c.want_n >= 3, "three or more segments");
}

fn covers_standalone_pop(c: &Seen) {
    cover!(c.out_len > c.in_len, "pop appended '..'");
    cover!(c.want_n >= 2, "two or more segments left");
}

fn covers_standalone_clear(c: &Seen) {
    cover!(c.out_len + 2 <= c.in_len, "at least two bytes cleared");
}

/// One edit through a fresh handle on a path embedded in a URI reference.
fn embedded_uri<const OP: u8, const FRESH: bool, const N: usize, const M: usize, const K: usize>(covers: fn(&Seen)) {
    let t = Text::<N>::any();
    let b = t.bytes();
    assume(tables::t_uri_uriref_valid_k(b, N));
    let a = Text::<M>::any();
    let arg = a.bytes();
    if OP == SYMBOLIC_APPEND {
        assume(uri::Path::new(arg).is_ok());
    } else if OP == PUSH || OP == SYMBOLIC_PUSH {
        assume(uri::Segment::new(arg).is_ok());
    } else {
        assume(arg.is_empty());
    }
    let before = split_ref(b);
    let cb = comps_of(b, &before);
    // a path that follows an authority is absolute even when its text is empty
    let absolute = cb.path.first() == Some(&b'/') || cb.authority.is_some();
    let s = src_of::<N, M>(cb.path, arg);
    let want = expected_list(OP, &s, cb.path.len(), absolute);

    let mut x = unsafe { UriRefBuf::new_unchecked(vec_cap::<K>(b)) };
    let (hp, hl) = {
        let mut pm = x.path_mut();
        let seg = unsafe { uri::Segment::new_unchecked(arg) };
        let pth = unsafe { uri::Path::new_unchecked(arg) };
        apply_op!(pm, OP, seg, pth);
        let v: &uri::Path = &pm;
        (v.as_bytes().as_ptr(), v.as_bytes().len())
    };
    let out = x.as_bytes();
    // scheme, authority, query and fragment byte-identical; the path is the
    // expected sequence; absolute stays absolute (and a path that follows an
    // authority becomes absolute as soon as it has a segment)
    let render_abs = cb.path.first() == Some(&b'/') || (cb.authority.is_some() && want.n > 0);
    assert!(
        is_rendering(out, &b[..before.path.0], &s, &want, render_abs, &b[before.path.1..], K, N + 2),
        "C10: after the edit the text is not the old one with its path replaced by the expected segment sequence"
    );
    assert!(tables::t_uri_uriref_valid_k(out, K), "C04: the buffer is no longer a valid URI reference after the path edit");
    // invariant I: the handle viewed exactly the (new) path of the buffer
    if FRESH {
        let fresh = x.path().as_bytes();
        assert!(hp == fresh.as_ptr() && hl == fresh.len(), "C04/C10: the handle does not view exactly the path after the edit");
    } else {
        // the same statement without a second parse of the buffer (which costs as
        // much as the edit): by the assertion above the new path is the piece that
        // starts where the old one did and whose length moved by exactly the
        // length change of the text, and it reads back as the path (C02)
        assert!(hp == out[before.path.0..].as_ptr() && hl + b.len() == cb.path.len() + out.len(), "C04/C10: the handle does not view exactly the path after the edit");
    }
    covers(&Seen {
        in_len: b.len(),
        out_len: out.len(),
        arg_len: arg.len(),
        no_scheme_no_authority: cb.scheme.is_none() && cb.authority.is_none(),
        old_path_empty: cb.path.is_empty(),
        after_authority: cb.authority.is_some(),
        has_query: cb.query.is_some(),
        want_n: want.n,
    });
    forget(x);
}

// @h prop=C10,C04:thorough tier=quick kind=check reach=0 timeout=2400 mem=10 bound="UriRefBuf text <= 4 bytes, segment <= 2 bytes" encodes="RiRefBufImpl::path_mut;PathMutImpl::{new,push,first_segment_offset};utils::{replace,allocate_range};Deref for PathMut"
#[cfg_attr(kani, kani::proof)]
#[cfg_attr(kani, kani::unwind(9))]
#[cfg_attr(kani, kani::stub(std::vec::Vec::resize, crate::stubs::vec_resize))]
pub fn c10_embedded_push_n4() {
    embedded_uri::<PUSH, false, 4, 2, 8>(covers_push_min)
}

// @h prop=C10 tier=thorough kind=check reach=0 timeout=2400 mem=16 bound="UriRefBuf text <= 5 bytes, segment <= 2 bytes" encodes="RiRefBufImpl::path_mut;PathMutImpl::{new,push,first_segment_offset};utils::{replace,allocate_range};Deref for PathMut"
#[cfg_attr(kani, kani::proof)]
#[cfg_attr(kani, kani::unwind(10))]
#[cfg_attr(kani, kani::stub(std::vec::Vec::resize, crate::stubs::vec_resize))]
pub fn c10_embedded_push_n5() {
    embedded_uri::<PUSH, true, 5, 2, 9>(covers_push)
}

// @h prop=C10,C04:thorough tier=quick kind=check reach=0 timeout=2400 mem=10 bound="UriRefBuf text <= 4 bytes" encodes="PathMutImpl::{pop,push};PathImpl::last;utils::replace"
#[cfg_attr(kani, kani::proof)]
#[cfg_attr(kani, kani::unwind(8))]
#[cfg_attr(kani, kani::stub(std::vec::Vec::resize, crate::stubs::vec_resize))]
pub fn c10_embedded_pop_n4() {
    embedded_uri::<POP, false, 4, 0, 7>(covers_pop_min)
}

// @h prop=C10 tier=thorough kind=check reach=0 timeout=2400 mem=16 bound="UriRefBuf text <= 5 bytes" encodes="PathMutImpl::{pop,push};PathImpl::last;utils::replace"
#[cfg_attr(kani, kani::proof)]
#[cfg_attr(kani, kani::unwind(9))]
#[cfg_attr(kani, kani::stub(std::vec::Vec::resize, crate::stubs::vec_resize))]
pub fn c10_embedded_pop_n5() {
    embedded_uri::<POP, true, 5, 0, 8>(covers_pop)
}

// @h prop=C10,C04 tier=quick kind=check reach=0 timeout=2400 mem=10 bound="UriRefBuf text <= 5 bytes" encodes="PathMutImpl::clear;utils::replace"
#[cfg_attr(kani, kani::proof)]
#[cfg_attr(kani, kani::unwind(8))]
#[cfg_attr(kani, kani::stub(std::vec::Vec::resize, crate::stubs::vec_resize))]
pub fn c10_embedded_clear_n5() {
    embedded_uri::<CLEAR, false, 5, 0, 6>(covers_clear)
}

// @h prop=C10,C04 tier=thorough kind=check reach=0 timeout=3000 mem=24 bound="UriRefBuf text <= 4 bytes, segment <= 2 bytes (incl. '.', '..')" encodes="uri::PathMut::symbolic_push;PathMutImpl::{symbolic_push,pop,push}"
#[cfg_attr(kani, kani::proof)]
#[cfg_attr(kani, kani::unwind(10))]
#[cfg_attr(kani, kani::stub(std::vec::Vec::resize, crate::stubs::vec_resize))]
pub fn c10_embedded_symbolic_push_n4() {
    embedded_uri::<SYMBOLIC_PUSH, true, 4, 2, 9>(covers_push)
}

// @h prop=C10 tier=thorough kind=check reach=0 timeout=3000 mem=20 bound="UriRefBuf text <= 5 bytes, appended path <= 4 bytes" encodes="PathMutImpl::symbolic_append over SegmentsImpl;symbolic_push;pop;push"
#[cfg_attr(kani, kani::proof)]
#[cfg_attr(kani, kani::unwind(13))]
#[cfg_attr(kani, kani::stub(std::vec::Vec::resize, crate::stubs::vec_resize))]
pub fn c10_embedded_symbolic_append_n5() {
    embedded_uri::<SYMBOLIC_APPEND, true, 5, 4, 12>(covers_push)
}

/// The same edits on a stand-alone path buffer.
fn standalone_uri<const OP: u8, const N: usize, const M: usize, const K: usize>(covers: fn(&Seen)) {
    let t = Text::<N>::any();
    let b = t.bytes();
    assume(uri::Path::new(b).is_ok());
    let a = Text::<M>::any();
    let arg = a.bytes();
    if OP == SYMBOLIC_APPEND {
        assume(uri::Path::new(arg).is_ok());
    } else if OP == PUSH || OP == SYMBOLIC_PUSH {
        assume(uri::Segment::new(arg).is_ok());
    } else {
        assume(arg.is_empty());
    }
    let absolute = b.first() == Some(&b'/');
    let s = src_of::<N, M>(b, arg);
    let want = expected_list(OP, &s, b.len(), absolute);
    let mut x = unsafe { uri::PathBuf::new_unchecked(vec_cap::<K>(b)) };
    let seg = unsafe { uri::Segment::new_unchecked(arg) };
    let pth = unsafe { uri::Path::new_unchecked(arg) };
    apply_op!(x, OP, seg, pth);
    let out = x.as_bytes();
    assert!(is_rendering(out, b"", &s, &want, absolute, b"", K, N + 2), "C10: the stand-alone path is not the expected segment sequence after the edit");
    assert!(tables::t_uri_path_valid_k(out, K), "C04: the stand-alone path buffer is no longer a valid path");
    covers(&Seen {
        in_len: b.len(),
        out_len: out.len(),
        arg_len: arg.len(),
        no_scheme_no_authority: true,
        old_path_empty: b.is_empty(),
        after_authority: false,
        has_query: false,
        want_n: want.n,
    });
    forget(x);
}

// @h prop=C10,C04:thorough tier=quick kind=check reach=0 timeout=2400 mem=10 bound="uri::PathBuf text <= 4 bytes, segment <= 2 bytes" encodes="uri::PathBuf::push;PathMutImpl::{from_path,push}"
#[cfg_attr(kani, kani::proof)]
#[cfg_attr(kani, kani::unwind(9))]
#[cfg_attr(kani, kani::stub(std::vec::Vec::resize, crate::stubs::vec_resize))]
pub fn c10_pathbuf_push_n4() {
    standalone_uri::<PUSH, 4, 2, 8>(covers_standalone_push)
}

// @h prop=C10,C04:thorough tier=quick kind=check reach=0 timeout=2400 mem=10 bound="uri::PathBuf text <= 4 bytes" encodes="uri::PathBuf::pop;PathMutImpl::pop"
#[cfg_attr(kani, kani::proof)]
#[cfg_attr(kani, kani::unwind(8))]
#[cfg_attr(kani, kani::stub(std::vec::Vec::resize, crate::stubs::vec_resize))]
pub fn c10_pathbuf_pop_n4() {
    standalone_uri::<POP, 4, 0, 7>(covers_standalone_pop)
}

// @h prop=C10 tier=thorough kind=check reach=0 timeout=3000 mem=20 bound="uri::PathBuf text <= 5 bytes, appended path <= 4 bytes" encodes="uri::PathBuf::symbolic_append"
#[cfg_attr(kani, kani::proof)]
#[cfg_attr(kani, kani::unwind(13))]
#[cfg_attr(kani, kani::stub(std::vec::Vec::resize, crate::stubs::vec_resize))]
pub fn c10_pathbuf_symbolic_append_n5() {
    standalone_uri::<SYMBOLIC_APPEND, 5, 4, 12>(covers_standalone_push)
}

/// Two edits through ONE handle with symbolic op choice (push / pop / clear)
/// give exactly what the same two edits give through two FRESH handles (whose
/// single steps are decided against the list oracle above), and the handle
/// still views exactly the path.
fn two_ops_embedded<const N: usize, const M: usize>() {
    let t = Text::<N>::any();
    let b = t.bytes();
    assume(tables::t_uri_uriref_valid_k(b, N));
    let a = Text::<M>::any();
    let arg = a.bytes();
    assume(uri::Segment::new(arg).is_ok());
    let op1 = any_u8() % 3;
    let op2 = any_u8() % 3;
    let seg = unsafe { uri::Segment::new_unchecked(arg) };
    let pth = unsafe { uri::Path::new_unchecked(arg) };
    // reference: a fresh handle per edit
    let mut y = unsafe { UriRefBuf::new_unchecked(vec_of(b)) };
    {
        let mut pm = y.path_mut();
        apply_op!(pm, op1, seg, pth);
    }
    {
        let mut pm = y.path_mut();
        apply_op!(pm, op2, seg, pth);
    }
    // subject: both edits through one handle
    let mut x = unsafe { UriRefBuf::new_unchecked(vec_of(b)) };
    let (hp, hl) = {
        let mut pm = x.path_mut();
        apply_op!(pm, op1, seg, pth);
        apply_op!(pm, op2, seg, pth);
        let v: &uri::Path = &pm;
        (v.as_bytes().as_ptr(), v.as_bytes().len())
    };
    let out = x.as_bytes();
    assert!(tables::t_uri_uriref_valid_k(out, N + M + 3), "C04: invalid after two edits through one path handle");
    assert!(bytes_eq(out, y.as_bytes()), "C10: two edits through one handle differ from the same edits through fresh handles");
    let fresh = x.path().as_bytes();
    assert!(hp == fresh.as_ptr() && hl == fresh.len(), "C10: the handle lost track of the path after two edits");
    cover!(op1 == CLEAR && op2 == PUSH, "clear then push");
    cover!(op1 == PUSH && op2 == POP, "push then pop");
    forget(x);
    forget(y);
}

// @h prop=C10,C04:thorough tier=thorough kind=check reach=0 timeout=5400 mem=26 bound="UriRefBuf text <= 5 bytes, two symbolic ops (push/pop/clear) through one handle, segment <= 2 bytes" encodes="PathMutImpl::{push,pop,clear} in sequence on one handle (start/end bookkeeping)"
#[cfg_attr(kani, kani::proof)]
#[cfg_attr(kani, kani::unwind(14))]
#[cfg_attr(kani, kani::stub(std::vec::Vec::resize, crate::stubs::vec_resize))]
pub fn c10_two_ops_n5() {
    two_ops_embedded::<5, 2>()
}
