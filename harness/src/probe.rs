//! Development probes (cost experiments).  No `// @h` annotation: never run by
//! any registered check.
use crate::oracle::{concat_eq, split_auth, split_ref};
use crate::sym::{assume, bytes_eq, Text};
use crate::{cover, tables};
use iref_core::{uri, UriRefBuf};
use std::mem::forget;

use crate::sym::vec_cap;

fn set_host_probe<const N: usize, const C: usize>() {
    let t = Text::<N>::any();
    let b = t.bytes();
    assume(tables::t_uri_uriref_valid(b));
    let before = split_ref(b);
    assume(before.authority.is_some());
    let a = Text::<2>::any();
    let arg = a.bytes();
    assume(tables::t_uri_host_valid(arg));
    let mut x = unsafe { UriRefBuf::new_unchecked(vec_cap::<C>(b)) };
    {
        let mut am = x.authority_mut().unwrap();
        am.set_host(unsafe { uri::Host::new_unchecked(arg) });
    }
    let out = x.as_bytes();
    assert!(tables::t_uri_uriref_valid(out), "post-state valid");
    cover!(out.len() == N + 2, "grew");
    forget(x);
}

#[cfg_attr(kani, kani::proof)]
#[cfg_attr(kani, kani::unwind(13))]
#[cfg_attr(kani, kani::stub(std::vec::Vec::resize, crate::stubs::vec_resize))]
pub fn probe_cap16() {
    set_host_probe::<6, 16>()
}

#[cfg_attr(kani, kani::proof)]
#[cfg_attr(kani, kani::unwind(13))]
#[cfg_attr(kani, kani::stub(std::vec::Vec::resize, crate::stubs::vec_resize))]
pub fn probe_cap40() {
    set_host_probe::<6, 40>()
}

#[cfg_attr(kani, kani::proof)]
#[cfg_attr(kani, kani::unwind(12))]
#[cfg_attr(kani, kani::stub(std::vec::Vec::resize, crate::stubs::vec_resize))]
pub fn probe_n5_cap12() {
    set_host_probe::<5, 12>()
}

#[cfg_attr(kani, kani::proof)]
#[cfg_attr(kani, kani::unwind(11))]
#[cfg_attr(kani, kani::stub(std::vec::Vec::resize, crate::stubs::vec_resize))]
pub fn probe_n4_cap12() {
    set_host_probe::<4, 12>()
}

/// the same op, but only ONE byte of the result is read afterwards
#[cfg_attr(kani, kani::proof)]
#[cfg_attr(kani, kani::unwind(12))]
#[cfg_attr(kani, kani::stub(std::vec::Vec::resize, crate::stubs::vec_resize))]
pub fn probe_n5_onebyte() {
    let t = Text::<5>::any();
    let b = t.bytes();
    assume(tables::t_uri_uriref_valid(b));
    let before = split_ref(b);
    assume(before.authority.is_some());
    let a = Text::<2>::any();
    let arg = a.bytes();
    assume(tables::t_uri_host_valid(arg));
    let mut x = unsafe { UriRefBuf::new_unchecked(vec_cap::<12>(b)) };
    {
        let mut am = x.authority_mut().unwrap();
        am.set_host(unsafe { uri::Host::new_unchecked(arg) });
    }
    let out = x.as_bytes();
    assert!(out[0] == b[0], "first byte unchanged");
    forget(x);
}

/// set_host on `//` + up to 3 plain bytes (no table precondition at all)
#[cfg_attr(kani, kani::proof)]
#[cfg_attr(kani, kani::unwind(12))]
#[cfg_attr(kani, kani::stub(std::vec::Vec::resize, crate::stubs::vec_resize))]
pub fn probe_notable() {
    let t = Text::<5>::any();
    let b = t.bytes();
    assume(b.len() >= 2 && b[0] == b'/' && b[1] == b'/');
    let mut i = 2;
    while i < b.len() {
        assume(b[i].is_ascii_lowercase() || b[i] == b':' || b[i] == b'@' || b[i].is_ascii_digit());
        i += 1;
    }
    let a = Text::<2>::any();
    let arg = a.bytes();
    let mut j = 0;
    while j < arg.len() {
        assume(arg[j].is_ascii_lowercase());
        j += 1;
    }
    let mut x = unsafe { UriRefBuf::new_unchecked(vec_cap::<12>(b)) };
    {
        let mut am = x.authority_mut().unwrap();
        am.set_host(unsafe { uri::Host::new_unchecked(arg) });
    }
    let out = x.as_bytes();
    assert!(out[0] == b[0], "first byte unchanged");
    forget(x);
}

/// the same input model, set_authority (C05 path) instead of the handle
#[cfg_attr(kani, kani::proof)]
#[cfg_attr(kani, kani::unwind(12))]
#[cfg_attr(kani, kani::stub(std::vec::Vec::resize, crate::stubs::vec_resize))]
pub fn probe_notable_setauth() {
    let t = Text::<5>::any();
    let b = t.bytes();
    assume(b.len() >= 2 && b[0] == b'/' && b[1] == b'/');
    let mut i = 2;
    while i < b.len() {
        assume(b[i].is_ascii_lowercase() || b[i] == b':' || b[i] == b'@' || b[i].is_ascii_digit());
        i += 1;
    }
    let a = Text::<2>::any();
    let arg = a.bytes();
    let mut j = 0;
    while j < arg.len() {
        assume(arg[j].is_ascii_lowercase());
        j += 1;
    }
    let mut x = unsafe { UriRefBuf::new_unchecked(vec_cap::<12>(b)) };
    x.set_authority(Some(unsafe { uri::Authority::new_unchecked(arg) }));
    let out = x.as_bytes();
    assert!(out[0] == b[0], "first byte unchanged");
    forget(x);
}

/// full C11 host harness body at N=4 with copy_from_slice stubbed by a loop
#[cfg_attr(kani, kani::proof)]
#[cfg_attr(kani, kani::unwind(11))]
#[cfg_attr(kani, kani::stub(std::vec::Vec::resize, crate::stubs::vec_resize))]
#[cfg_attr(kani, kani::stub(<[u8]>::copy_from_slice, crate::stubs::copy_from_slice_loop))]
pub fn probe_c11_copyloop() {
    crate::c11::c11_set_host_n4()
}

fn ui_probe<const CHK: u8, const CAP: usize>() {
    use crate::oracle::{split_ref};
    use crate::c11::{is_expected, USERINFO};
    let t = Text::<3>::any();
    let b = t.bytes();
    assume(tables::t_uri_uriref_valid_k(b, 3));
    let before = split_ref(b);
    assume(before.authority.is_some());
    let a = Text::<1>::any();
    let arg = a.bytes();
    assume(uri::UserInfo::new(arg).is_ok());
    let (a0, a1) = before.authority.unwrap();
    let mut x = unsafe { UriRefBuf::new_unchecked(vec_cap::<CAP>(b)) };
    let (hp, hl) = {
        let mut am = x.authority_mut().unwrap();
        am.set_userinfo(Some(unsafe { uri::UserInfo::new_unchecked(arg) }));
        let v = am.as_authority().as_bytes();
        (v.as_ptr(), v.len())
    };
    let out = x.as_bytes();
    if CHK & 1 != 0 {
        assert!(is_expected(out, b, a0, a1, USERINFO, Some(arg), 5), "exp");
    }
    if CHK & 2 != 0 {
        assert!(tables::t_uri_uriref_valid_k(out, 5), "valid");
    }
    if CHK & 4 != 0 {
        let fresh = x.authority().unwrap().as_bytes();
        assert!(hp == fresh.as_ptr() && hl == fresh.len(), "handle");
    }
    if CHK & 8 != 0 {
        // handle coherence against the oracle split instead of a second parse
        let so = split_ref(out).authority.unwrap();
        assert!(hp == out[so.0..].as_ptr() && hl == so.1 - so.0, "handle2");
    }
    if CHK & 16 != 0 {
        // arithmetic coherence: same start, length moved by the length change
        assert!(hp == out[a0..].as_ptr() && hl + b.len() == (a1 - a0) + out.len(), "handle3");
        cover!(true, "end");
    }
    std::mem::forget(x);
}
#[cfg_attr(kani, kani::proof)]
#[cfg_attr(kani, kani::unwind(8))]
#[cfg_attr(kani, kani::stub(std::vec::Vec::resize, crate::stubs::vec_resize))]
pub fn probe_ui_arith() {
    ui_probe::<19, 10>()
}
#[cfg_attr(kani, kani::proof)]
#[cfg_attr(kani, kani::unwind(8))]
#[cfg_attr(kani, kani::stub(std::vec::Vec::resize, crate::stubs::vec_resize))]
pub fn probe_ui_all_cap5() {
    ui_probe::<7, 5>()
}
#[cfg_attr(kani, kani::proof)]
#[cfg_attr(kani, kani::unwind(8))]
#[cfg_attr(kani, kani::stub(std::vec::Vec::resize, crate::stubs::vec_resize))]
pub fn probe_ui_exp() {
    ui_probe::<1, 10>()
}
#[cfg_attr(kani, kani::proof)]
#[cfg_attr(kani, kani::unwind(8))]
#[cfg_attr(kani, kani::stub(std::vec::Vec::resize, crate::stubs::vec_resize))]
pub fn probe_ui_valid() {
    ui_probe::<2, 10>()
}
#[cfg_attr(kani, kani::proof)]
#[cfg_attr(kani, kani::unwind(8))]
#[cfg_attr(kani, kani::stub(std::vec::Vec::resize, crate::stubs::vec_resize))]
pub fn probe_ui_handle() {
    ui_probe::<4, 10>()
}
#[cfg_attr(kani, kani::proof)]
#[cfg_attr(kani, kani::unwind(8))]
#[cfg_attr(kani, kani::stub(std::vec::Vec::resize, crate::stubs::vec_resize))]
pub fn probe_ui_exp_handle2() {
    ui_probe::<9, 10>()
}
