//! C13 — conversions between the four kinds are exact (the language facts the
//! unchecked casts rely on are Engine D's part of C13).
use crate::adapt::RefLike;
use crate::oracle::split_ref;
use crate::sym::{as_str, assume, bytes_eq, vec_of, Text};
use crate::{cover, tables};
use iref_core::{Iri, IriBuf, IriRef, IriRefBuf, Uri, UriBuf, UriRef, UriRefBuf};
use std::borrow::Borrow;
use std::convert::TryFrom;
use std::mem::forget;

macro_rules! same {
    ($got:expr, $b:expr) => {
        $got.as_ptr() == $b.as_ptr() && $got.len() == $b.len()
    };
}

fn uri_views<const N: usize>() {
    let t = Text::<N>::any();
    let b = t.bytes();
    assume(tables::t_uri_uri_valid_k(b, N));
    let u = unsafe { Uri::new_unchecked(b) };
    assert!(same!(u.as_uri_ref().as_bytes(), b), "Uri::as_uri_ref changes the text");
    assert!(same!(u.as_iri().as_bytes(), b), "Uri::as_iri changes the text");
    assert!(same!(u.as_iri_ref().as_bytes(), b), "Uri::as_iri_ref changes the text");
    assert!(same!(AsRef::<UriRef>::as_ref(u).as_bytes(), b), "AsRef<UriRef> for Uri");
    assert!(same!(AsRef::<Iri>::as_ref(u).as_bytes(), b), "AsRef<Iri> for Uri");
    assert!(same!(AsRef::<IriRef>::as_ref(u).as_bytes(), b), "AsRef<IriRef> for Uri");
    assert!(same!(Borrow::<UriRef>::borrow(u).as_bytes(), b), "Borrow<UriRef> for Uri");
    assert!(same!(Borrow::<Iri>::borrow(u).as_bytes(), b), "Borrow<Iri> for Uri");
    assert!(same!(Borrow::<IriRef>::borrow(u).as_bytes(), b), "Borrow<IriRef> for Uri");
    // the targets of the unchecked casts are valid (Engine D proves it for all lengths)
    assert!(tables::t_uri_uriref_valid_k(b, N) && tables::t_iri_iri_valid_k(b, N) && tables::t_iri_iriref_valid_k(b, N), "a valid URI is not valid in a target type");
    cover!(b.len() == N, "maximal length");
}

// @h prop=C13 tier=quick kind=check bound="Uri text <= 10 bytes" encodes="Uri::{as_uri_ref,as_iri,as_iri_ref};AsRef/Borrow<UriRef|Iri|IriRef> for Uri"
#[cfg_attr(kani, kani::proof)]
#[cfg_attr(kani, kani::unwind(12))]
pub fn c13_uri_views_n10() {
    uri_views::<10>()
}

fn uriref_views<const N: usize>() {
    let t = Text::<N>::any();
    let b = t.bytes();
    assume(tables::t_uri_uriref_valid_k(b, N));
    let r = unsafe { UriRef::new_unchecked(b) };
    let has_scheme = split_ref(b).scheme.is_some();
    match r.as_uri() {
        Some(u) => assert!(has_scheme && same!(u.as_bytes(), b), "as_uri: Some without a scheme, or text changed"),
        None => assert!(!has_scheme, "as_uri: None although the reference has a scheme"),
    }
    match r.as_iri() {
        Some(u) => assert!(has_scheme && same!(u.as_bytes(), b), "as_iri: Some without a scheme, or text changed"),
        None => assert!(!has_scheme, "as_iri: None although the reference has a scheme"),
    }
    assert!(same!(r.as_iri_ref().as_bytes(), b), "UriRef::as_iri_ref changes the text");
    assert!(same!(<&IriRef>::from(r).as_bytes(), b), "From<&UriRef> for &IriRef");
    assert!(same!(AsRef::<IriRef>::as_ref(r).as_bytes(), b), "AsRef<IriRef> for UriRef");
    match <&Uri>::try_from(r) {
        Ok(u) => assert!(has_scheme && same!(u.as_bytes(), b), "TryFrom<&UriRef> for &Uri: wrong success"),
        Err(e) => assert!(!has_scheme && same!(e.0.as_bytes(), b), "TryFrom<&UriRef> for &Uri: wrong failure or original not returned"),
    }
    match <&Iri>::try_from(r) {
        Ok(u) => assert!(has_scheme && same!(u.as_bytes(), b), "TryFrom<&UriRef> for &Iri: wrong success"),
        Err(e) => assert!(!has_scheme && same!(e.0.as_bytes(), b), "TryFrom<&UriRef> for &Iri: wrong failure or original not returned"),
    }
    // has a scheme <=> is a URI (Engine D: for all lengths)
    assert!(has_scheme == tables::t_uri_uri_valid_k(b, N), "reference with a scheme is not exactly a URI");
    cover!(has_scheme, "has a scheme");
    cover!(!has_scheme && b.len() > 3, "no scheme");
}

// @h prop=C13 tier=quick kind=check bound="UriRef text <= 10 bytes" encodes="UriRef::{as_uri,as_iri,as_iri_ref};TryFrom<&UriRef> for &Uri,&Iri;From<&UriRef> for &IriRef"
#[cfg_attr(kani, kani::proof)]
#[cfg_attr(kani, kani::unwind(12))]
pub fn c13_uriref_views_n10() {
    uriref_views::<10>()
}

fn iriref_views<const N: usize>() {
    let t = Text::<N>::any();
    let b = t.bytes();
    assume(tables::t_iri_iriref_valid_k(b, N));
    let r = unsafe { IriRef::new_unchecked(as_str(b)) };
    let has_scheme = split_ref(b).scheme.is_some();
    let is_uri = tables::t_uri_uri_valid_k(b, N);
    let is_uriref = tables::t_uri_uriref_valid_k(b, N);
    match r.as_iri() {
        Some(u) => assert!(has_scheme && same!(u.as_bytes(), b), "IriRef::as_iri: wrong success"),
        None => assert!(!has_scheme, "IriRef::as_iri: None although there is a scheme"),
    }
    match r.as_uri() {
        Some(u) => assert!(is_uri && same!(u.as_bytes(), b), "IriRef::as_uri: Some for a non-URI, or text changed"),
        None => assert!(!is_uri, "IriRef::as_uri: None for a text the URI grammar accepts"),
    }
    match r.as_uri_ref() {
        Some(u) => assert!(is_uriref && same!(u.as_bytes(), b), "IriRef::as_uri_ref: wrong success"),
        None => assert!(!is_uriref, "IriRef::as_uri_ref: None for a text the URI-reference grammar accepts"),
    }
    match <&Iri>::try_from(r) {
        Ok(u) => assert!(has_scheme && same!(u.as_bytes(), b), "TryFrom<&IriRef> for &Iri"),
        Err(e) => assert!(!has_scheme && same!(e.0.as_bytes(), b), "TryFrom<&IriRef> for &Iri: original not returned"),
    }
    match <&Uri>::try_from(r) {
        Ok(u) => assert!(is_uri && same!(u.as_bytes(), b), "TryFrom<&IriRef> for &Uri"),
        Err(e) => assert!(!is_uri && same!(e.0.as_bytes(), b), "TryFrom<&IriRef> for &Uri: original not returned"),
    }
    match <&UriRef>::try_from(r) {
        Ok(u) => assert!(is_uriref && same!(u.as_bytes(), b), "TryFrom<&IriRef> for &UriRef"),
        Err(e) => assert!(!is_uriref && same!(e.0.as_bytes(), b), "TryFrom<&IriRef> for &UriRef: original not returned"),
    }
    assert!(has_scheme == tables::t_iri_iri_valid_k(b, N), "IRI reference with a scheme is not exactly an IRI");
    cover!(is_uri, "ASCII IRI reference that is a URI");
    cover!(!is_uriref, "IRI reference that is not a URI reference");
    cover!(has_scheme && !is_uri, "IRI that is not a URI");
}

// @h prop=C13 tier=quick kind=check bound="IriRef text <= 8 bytes (UTF-8)" encodes="IriRef::{as_iri,as_uri,as_uri_ref};TryFrom<&IriRef> for &Iri,&Uri,&UriRef (Uri/UriRef::validate -> table twins)"
#[cfg_attr(kani, kani::proof)]
#[cfg_attr(kani, kani::unwind(10))]
#[cfg_attr(kani, kani::stub(iref_core::uri::Uri::validate, crate::tables::t_uri_uri_validate_iter))]
#[cfg_attr(kani, kani::stub(iref_core::uri::UriRef::validate, crate::tables::t_uri_uriref_validate_iter))]
pub fn c13_iriref_views_n8() {
    iriref_views::<8>()
}

fn iri_views<const N: usize>() {
    let t = Text::<N>::any();
    let b = t.bytes();
    assume(tables::t_iri_iri_valid_k(b, N));
    let r = unsafe { Iri::new_unchecked(as_str(b)) };
    let is_uri = tables::t_uri_uri_valid_k(b, N);
    let is_uriref = tables::t_uri_uriref_valid_k(b, N);
    assert!(same!(r.as_iri_ref().as_bytes(), b), "Iri::as_iri_ref changes the text");
    assert!(same!(<&IriRef>::from(r).as_bytes(), b), "From<&Iri> for &IriRef");
    assert!(tables::t_iri_iriref_valid_k(b, N), "a valid IRI is not a valid IRI reference");
    match r.as_uri() {
        Some(u) => assert!(is_uri && same!(u.as_bytes(), b), "Iri::as_uri: wrong success"),
        None => assert!(!is_uri, "Iri::as_uri: None for a text the URI grammar accepts"),
    }
    match r.as_uri_ref() {
        Some(u) => assert!(is_uriref && same!(u.as_bytes(), b), "Iri::as_uri_ref: wrong success"),
        None => assert!(!is_uriref, "Iri::as_uri_ref: None for a valid URI reference"),
    }
    match <&Uri>::try_from(r) {
        Ok(u) => assert!(is_uri && same!(u.as_bytes(), b), "TryFrom<&Iri> for &Uri"),
        Err(e) => assert!(!is_uri && same!(e.0.as_bytes(), b), "TryFrom<&Iri> for &Uri: original not returned"),
    }
    match <&UriRef>::try_from(r) {
        Ok(u) => assert!(is_uriref && same!(u.as_bytes(), b), "TryFrom<&Iri> for &UriRef"),
        Err(e) => assert!(!is_uriref && same!(e.0.as_bytes(), b), "TryFrom<&Iri> for &UriRef: original not returned"),
    }
    assert!(is_uri == is_uriref, "an IRI is a URI exactly when it is a URI reference");
    cover!(is_uri, "IRI that is a URI");
    cover!(!is_uri, "IRI that is not a URI");
}

// @h prop=C13 tier=quick kind=check bound="Iri text <= 8 bytes (UTF-8)" encodes="Iri::{as_iri_ref,as_uri,as_uri_ref};TryFrom<&Iri> for &Uri,&UriRef;From<&Iri> for &IriRef"
#[cfg_attr(kani, kani::proof)]
#[cfg_attr(kani, kani::unwind(10))]
#[cfg_attr(kani, kani::stub(iref_core::uri::Uri::validate, crate::tables::t_uri_uri_validate_iter))]
#[cfg_attr(kani, kani::stub(iref_core::uri::UriRef::validate, crate::tables::t_uri_uriref_validate_iter))]
pub fn c13_iri_views_n8() {
    iri_views::<8>()
}

/// Owned conversions out of the URI family: the buffer is moved, never copied
/// or rewritten; a failed conversion returns the original value.
fn owned_uri_family<const N: usize>() {
    let t = Text::<N>::any();
    let b = t.bytes();
    assume(tables::t_uri_uriref_valid_k(b, N));
    let has_scheme = split_ref(b).scheme.is_some();
    macro_rules! mk {
        () => {{
            let v = vec_of(b);
            let p = v.as_ptr();
            (unsafe { UriRefBuf::new_unchecked(v) }, p)
        }};
    }
    macro_rules! kept {
        ($x:expr, $p:expr) => {
            $x.as_bytes().as_ptr() == $p && bytes_eq($x.as_bytes(), b)
        };
    }
    let (x, p) = mk!();
    let y = x.into_iri_ref();
    assert!(kept!(y, p), "UriRefBuf::into_iri_ref does not keep the buffer");
    forget(y);
    let (x, p) = mk!();
    let y: IriRefBuf = x.into();
    assert!(kept!(y, p), "From<UriRefBuf> for IriRefBuf");
    forget(y);
    let (x, p) = mk!();
    match x.try_into_uri() {
        Ok(u) => {
            assert!(has_scheme && kept!(u, p), "try_into_uri: wrong success");
            // and onwards: UriBuf -> UriRefBuf / IriBuf / IriRefBuf
            let r = u.into_uri_ref();
            assert!(kept!(r, p), "UriBuf::into_uri_ref");
            forget(r);
        }
        Err(e) => {
            assert!(!has_scheme && kept!(e.0, p), "try_into_uri: wrong failure or original not returned");
            forget(e);
        }
    }
    let (x, p) = mk!();
    match x.try_into_iri() {
        Ok(u) => {
            assert!(has_scheme && kept!(u, p), "try_into_iri: wrong success");
            forget(u);
        }
        Err(e) => {
            assert!(!has_scheme && kept!(e.0, p), "try_into_iri: wrong failure or original not returned");
            forget(e);
        }
    }
    let (x, p) = mk!();
    match UriBuf::try_from(x) {
        Ok(u) => {
            assert!(has_scheme && kept!(u, p), "TryFrom<UriRefBuf> for UriBuf");
            let i = u.into_iri();
            assert!(kept!(i, p), "UriBuf::into_iri");
            forget(i);
        }
        Err(e) => {
            assert!(!has_scheme && kept!(e.0, p), "TryFrom<UriRefBuf> for UriBuf: original not returned");
            forget(e);
        }
    }
    let (x, p) = mk!();
    match IriBuf::try_from(x) {
        Ok(u) => {
            assert!(has_scheme && kept!(u, p), "TryFrom<UriRefBuf> for IriBuf");
            forget(u);
        }
        Err(e) => {
            assert!(!has_scheme && kept!(e.0, p), "TryFrom<UriRefBuf> for IriBuf: original not returned");
            forget(e);
        }
    }
    if has_scheme {
        let v = vec_of(b);
        let p = v.as_ptr();
        let u = unsafe { UriBuf::new_unchecked(v) };
        let i = u.into_iri_ref();
        assert!(kept!(i, p), "UriBuf::into_iri_ref");
        forget(i);
        let v = vec_of(b);
        let p = v.as_ptr();
        let u = unsafe { UriBuf::new_unchecked(v) };
        let r: UriRefBuf = u.into();
        assert!(kept!(r, p), "From<UriBuf> for UriRefBuf");
        forget(r);
    }
    cover!(has_scheme, "has a scheme");
    cover!(!has_scheme, "no scheme");
}

// @h prop=C13 tier=quick kind=check bound="UriRefBuf text <= 8 bytes" encodes="UriRefBuf::{into_iri_ref,try_into_uri,try_into_iri};UriBuf::{into_uri_ref,into_iri,into_iri_ref};TryFrom<UriRefBuf> for UriBuf,IriBuf;From impls"
#[cfg_attr(kani, kani::proof)]
#[cfg_attr(kani, kani::unwind(10))]
pub fn c13_owned_uri_family_n8() {
    owned_uri_family::<8>()
}

/// Owned conversions out of the IRI family (these re-validate with the URI
/// grammar: `Uri::validate`/`UriRef::validate` stubbed by their table twins).
fn owned_iri_family<const N: usize>() {
    let t = Text::<N>::any();
    let b = t.bytes();
    assume(tables::t_iri_iriref_valid_k(b, N));
    let has_scheme = split_ref(b).scheme.is_some();
    let is_uri = tables::t_uri_uri_valid_k(b, N);
    let is_uriref = tables::t_uri_uriref_valid_k(b, N);
    macro_rules! mk {
        () => {{
            let v = vec_of(b);
            let p = v.as_ptr();
            (unsafe { IriRefBuf::new_unchecked(String::from_utf8_unchecked(v)) }, p)
        }};
    }
    macro_rules! kept {
        ($x:expr, $p:expr) => {
            $x.as_bytes().as_ptr() == $p && bytes_eq($x.as_bytes(), b)
        };
    }
    macro_rules! conv {
        ($call:expr, $cond:expr, $p:expr, $what:literal) => {
            match $call {
                Ok(u) => {
                    assert!($cond && kept!(u, $p), concat!($what, ": wrong success or text changed"));
                    forget(u);
                }
                Err(e) => {
                    assert!(!$cond && kept!(e.0, $p), concat!($what, ": wrong failure or original not returned"));
                    forget(e);
                }
            }
        };
    }
    let (x, p) = mk!();
    conv!(x.try_into_iri(), has_scheme, p, "IriRefBuf::try_into_iri");
    let (x, p) = mk!();
    conv!(x.try_into_uri(), is_uri, p, "IriRefBuf::try_into_uri");
    let (x, p) = mk!();
    conv!(x.try_into_uri_ref(), is_uriref, p, "IriRefBuf::try_into_uri_ref");
    let (x, p) = mk!();
    conv!(IriBuf::try_from(x), has_scheme, p, "TryFrom<IriRefBuf> for IriBuf");
    let (x, p) = mk!();
    conv!(UriBuf::try_from(x), is_uri, p, "TryFrom<IriRefBuf> for UriBuf");
    let (x, p) = mk!();
    conv!(UriRefBuf::try_from(x), is_uriref, p, "TryFrom<IriRefBuf> for UriRefBuf");
    if has_scheme {
        macro_rules! mki {
            () => {{
                let v = vec_of(b);
                let p = v.as_ptr();
                (unsafe { IriBuf::new_unchecked(String::from_utf8_unchecked(v)) }, p)
            }};
        }
        let (x, p) = mki!();
        let r = x.into_iri_ref();
        assert!(kept!(r, p), "IriBuf::into_iri_ref");
        forget(r);
        let (x, p) = mki!();
        conv!(x.try_into_uri(), is_uri, p, "IriBuf::try_into_uri");
        let (x, p) = mki!();
        conv!(x.try_into_uri_ref(), is_uriref, p, "IriBuf::try_into_uri_ref");
        let (x, p) = mki!();
        conv!(UriBuf::try_from(x), is_uri, p, "TryFrom<IriBuf> for UriBuf");
        let (x, p) = mki!();
        conv!(UriRefBuf::try_from(x), is_uriref, p, "TryFrom<IriBuf> for UriRefBuf");
    }
    cover!(has_scheme && is_uri, "IRI that is a URI");
    cover!(has_scheme && !is_uri, "IRI that is not a URI");
    cover!(!has_scheme && is_uriref, "relative reference in both grammars");
}

// @h prop=C13 tier=quick kind=check bound="IriRefBuf text <= 6 bytes (UTF-8)" encodes="IriRefBuf::{try_into_iri,try_into_uri,try_into_uri_ref};IriBuf::{into_iri_ref,try_into_uri,try_into_uri_ref};TryFrom impls (Uri/UriRef::validate -> table twins)"
#[cfg_attr(kani, kani::proof)]
#[cfg_attr(kani, kani::unwind(8))]
#[cfg_attr(kani, kani::stub(iref_core::uri::Uri::validate, crate::tables::t_uri_uri_validate_iter))]
#[cfg_attr(kani, kani::stub(iref_core::uri::UriRef::validate, crate::tables::t_uri_uriref_validate_iter))]
pub fn c13_owned_iri_family_n6() {
    owned_iri_family::<6>()
}

/// Same text seen through both families: identical components.
fn cross_components<const N: usize>() {
    let t = Text::<N>::any();
    let b = t.bytes();
    assume(tables::t_uri_uriref_valid_k(b, N));
    let u = unsafe { UriRef::new_unchecked(b) };
    let i = u.as_iri_ref();
    let (us, ua, up, uq, uf) = u.parts_b();
    let (is, ia, ip, iq, if_) = i.parts_b();
    macro_rules! same_opt {
        ($a:expr, $b:expr) => {
            match ($a, $b) {
                (None, None) => true,
                (Some(x), Some(y)) => same!(x, y),
                _ => false,
            }
        };
    }
    assert!(same_opt!(us, is) && same_opt!(ua, ia) && same!(up, ip) && same_opt!(uq, iq) && same_opt!(uf, if_), "URI and IRI views of one text decompose differently");
    assert!(same_opt!(u.scheme_b(), i.scheme_b()) && same_opt!(u.authority_b(), i.authority_b()) && same!(u.path_b(), i.path_b()) && same_opt!(u.query_b(), i.query_b()) && same_opt!(u.fragment_b(), i.fragment_b()), "URI and IRI accessors disagree on one text");
    cover!(us.is_some() && ua.is_some() && uq.is_some(), "scheme, authority and query present");
}

// @h prop=C13 tier=quick kind=check bound="UriRef text <= 9 bytes, same text as IriRef" encodes="UriRef::as_iri_ref;RiRefImpl accessors and parts() of both families on the same bytes"
#[cfg_attr(kani, kani::proof)]
#[cfg_attr(kani, kani::unwind(11))]
pub fn c13_cross_components_n9() {
    cross_components::<9>()
}
